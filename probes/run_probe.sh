#!/bin/bash
# usage: [EXTRA_CBMC="..."] [TMO=900] [MEM=24000000] run.sh crate harness [extra kani args]
c=$1; h=$2; shift 2
cd /var/tmp/probe/$c
( ulimit -v ${MEM:-24000000}; time timeout ${TMO:-900} env RUSTFLAGS="--cfg orx_parallel_verif" CARGO_NET_OFFLINE=true cargo kani -Z stubbing --harness $h --exact --target-dir /var/tmp/probe/tgt-$h -Z unstable-options "$@" --cbmc-args --max-field-sensitivity-array-size 1024 $EXTRA_CBMC ) > /var/tmp/probe/$h.log 2>&1
echo "== $h"; /var/tmp/probe/sum.sh /var/tmp/probe/$h.log; grep -E "Runtime Symex|Runtime Solver|Runtime Convert|size of program|VCC" /var/tmp/probe/$h.log | head -5; grep -E "Not unwinding" /var/tmp/probe/$h.log | awk '{print $4}' | cut -c1-120 | sort | uniq -c
