#![allow(static_mut_refs)]
#[cfg(kani)]
mod h {
    use orx_parallel::*;
    use orx_parallel::prelude::PinnedVec;
    use std::num::NonZeroUsize;
    use orx_concurrent_iter::HasMore;

    fn no_lag() {}
    fn ap2() -> std::io::Result<NonZeroUsize> { Ok(NonZeroUsize::new(2).unwrap()) }
    fn ap_any() -> std::io::Result<NonZeroUsize> {
        let n: usize = kani::any();
        kani::assume(n >= 1 && n <= 1024);
        Ok(NonZeroUsize::new(n).unwrap())
    }
    fn any_nt() -> NumThreads {
        if kani::any() { NumThreads::Auto } else { let n: usize = kani::any(); kani::assume(n > 0); NumThreads::Max(NonZeroUsize::new(n).unwrap()) }
    }
    fn any_cs() -> ChunkSize {
        let k: u8 = kani::any();
        let n: usize = kani::any(); kani::assume(n > 0);
        match k % 3 { 0 => ChunkSize::Auto, 1 => ChunkSize::Min(NonZeroUsize::new(n).unwrap()), _ => ChunkSize::Exact(NonZeroUsize::new(n).unwrap()) }
    }

    // P-C1: Runner::new never panics and yields >=1 threads / >=1 chunk, threads <= Max(n)
    #[kani::proof]
    #[kani::unwind(23)]
    #[kani::stub(std::thread::available_parallelism, ap_any)]
    fn runner_new_total() {
        let nt = any_nt();
        let cs = any_cs();
        let task: u8 = kani::any(); kani::assume(task < 3);
        let len: Option<usize> = kani::any();
        let (t, _exact, c) = orx_parallel::verif::api::runner_new(nt, cs, task, len);
        assert!(t >= 1);
        assert!(c >= 1);
        if let NumThreads::Max(n) = nt { assert!(t <= n.get()); }
    }
    // P-C2: Exact stays exact
    #[kani::proof]
    #[kani::unwind(23)]
    #[kani::stub(std::thread::available_parallelism, ap_any)]
    fn exact_stays_exact() {
        let nt = any_nt();
        let c: usize = kani::any(); kani::assume(c > 0);
        let cs = ChunkSize::Exact(NonZeroUsize::new(c).unwrap());
        let task: u8 = kani::any(); kani::assume(task < 3);
        let len: Option<usize> = kani::any();
        let k: usize = kani::any();
        let hm = match kani::any::<u8>() % 3 { 0 => HasMore::No, 1 => HasMore::Maybe, _ => { let r: usize = kani::any(); if let Some(l) = len { kani::assume(r <= l); } kani::assume(r > 0); HasMore::Yes(r) } };
        let (t, exact, c0) = orx_parallel::verif::api::runner_new(nt, cs, task, len);
        assert!(exact && c0 == c);
        let (sp, nc) = orx_parallel::verif::api::spawn_decisions(nt, cs, task, len, k, hm);
        if let Some(x) = nc { assert!(x == c); }
        if k + 1 >= t { assert!(!sp); }
    }

    // P-D: iterator source, degenerate schedule
    #[kani::proof]
    #[kani::unwind(6)]
    #[kani::stub(orx_parallel::core::runner::lag, no_lag)]
    #[kani::stub(std::thread::available_parallelism, ap2)]
    fn iter_source_count() {
        let a: [u8; 3] = kani::any();
        let n = a.iter().filter(|x| **x != 7).par().num_threads(2).chunk_size(1).map(|x| x.wrapping_add(1)).filter(|x| x & 1 == 0).count();
        let e = a.iter().filter(|x| **x != 7).map(|x| x.wrapping_add(1)).filter(|x| x & 1 == 0).count();
        assert!(n == e);
    }
    #[kani::proof]
    #[kani::unwind(6)]
    #[kani::stub(orx_parallel::core::runner::lag, no_lag)]
    #[kani::stub(std::thread::available_parallelism, ap2)]
    fn endless_find() {
        let m: u8 = kani::any();
        kani::assume(m < 3);
        let r = (0u8..).par().num_threads(2).chunk_size(1).find(|x| *x == m);
        assert!(r == Some(m));
    }

    // P-B: drop tracking with owned Vec source, reduce
    static mut DROPS: [u8; 8] = [0; 8];
    static mut NEXT: u8 = 0;
    struct D(u8, u8);
    impl D { fn new(v: u8) -> D { unsafe { let id = NEXT; NEXT += 1; D(id, v) } } }
    impl Drop for D { fn drop(&mut self) { unsafe { DROPS[self.0 as usize] += 1; } } }
    #[kani::proof]
    #[kani::unwind(6)]
    #[kani::stub(orx_parallel::core::runner::lag, no_lag)]
    #[kani::stub(std::thread::available_parallelism, ap2)]
    fn drops_find_prefix() {
        let a: [u8; 3] = kani::any();
        let v: Vec<D> = vec![D::new(a[0]), D::new(a[1]), D::new(a[2])];
        let r = v.into_par().num_threads(2).chunk_size(1).find(|d| d.1 & 1 == 0);
        drop(r);
        unsafe { let n = NEXT as usize; let mut i = 0; while i < 8 { if i < n { assert!(DROPS[i] == 1); } i += 1; } }
    }
    // P-A: split vec collect + collect_x concrete shape
    #[kani::proof]
    #[kani::unwind(6)]
    #[kani::stub(orx_parallel::core::runner::lag, no_lag)]
    #[kani::stub(std::thread::available_parallelism, ap2)]
    fn splitvec_collect() {
        let a: [u8; 3] = kani::any();
        let s = &a[..];
        let out = s.into_par().num_threads(2).chunk_size(1).map(|x| x.wrapping_add(1)).filter(|_| true).collect();
        assert!(out.len() == 3);
        assert!(out[0] == a[0].wrapping_add(1) && out[2] == a[2].wrapping_add(1));
    }
    #[kani::proof]
    #[kani::unwind(6)]
    #[kani::stub(orx_parallel::core::runner::lag, no_lag)]
    #[kani::stub(std::thread::available_parallelism, ap2)]
    fn collect_x_shape() {
        let a: [u8; 3] = kani::any();
        let s = &a[..];
        let out = s.into_par().num_threads(2).chunk_size(1).map(|x| x.wrapping_add(1)).filter(|_| true).collect_x();
        assert!(out.len() == 3);
        let p: u8 = kani::any();
        let mut c1 = 0; let mut c2 = 0; let mut i = 0;
        while i < 3 { if out[i] == p { c1 += 1; } if a[i].wrapping_add(1) == p { c2 += 1; } i += 1; }
        assert!(c1 == c2);
    }
}
