#![allow(static_mut_refs)]
#[cfg(kani)]
mod model {
    use std::sync::atomic::{AtomicUsize, Ordering};
    pub const MAXN: usize = 6;
    pub static mut LEN: usize = 0;
    pub static mut CLAIMED: [bool; MAXN] = [false; MAXN];
    pub static mut OWNER: [u8; MAXN] = [255; MAXN];
    pub static mut PHASE: u8 = 0;
    pub static mut THREAD: usize = 0;
    pub static mut LAST_END: usize = 0;
    pub static mut PROGRESS: usize = 0;
    pub static mut FINISHED: bool = false;
    pub static mut VARIANT: u8 = 0;

    fn is_iter(this: &AtomicUsize) -> bool {
        unsafe {
            let base = orx_parallel::verif::ITER_PTR;
            if base.is_null() { return false; }
            kani::mem::same_allocation(this as *const AtomicUsize as *const u8, base)
        }
    }

    pub fn fetch_add(this: &AtomicUsize, val: usize, _o: Ordering) -> usize {
        unsafe {
            if PHASE == 2 && is_iter(this) {
                let take: bool = if VARIANT & 1 != 0 { let mut f = 0; while f < MAXN && f < LEN && CLAIMED[f] { f += 1; } f < LEN } else { kani::any() };
                if take {
                    let b: usize = if VARIANT & 1 != 0 { let mut f = 0; while f < MAXN && f < LEN && CLAIMED[f] { f += 1; } f } else { kani::any() };
                    kani::assume(b < LEN && b < CUT && b >= LAST_END && b >= PROGRESS && b % val == 0);
                    let e = if b + val < LEN { b + val } else { LEN };
                    let mut i = 0;
                    while i < MAXN {
                        if i >= b && i < e {
                            kani::assume(!CLAIMED[i]);
                            CLAIMED[i] = true;
                            OWNER[i] = THREAD as u8;
                        }
                        i += 1;
                    }
                    LAST_END = e;
                    b
                } else {
                    LEN
                }
            } else {
                let p = this.as_ptr();
                let old = *p;
                *p = old.wrapping_add(val);
                old
            }
        }
    }

    pub fn load(this: &AtomicUsize, _o: Ordering) -> usize {
        unsafe {
            if is_iter(this) && PHASE == 1 {
                let p: usize = if VARIANT & 2 != 0 { let mut f = 0; while f < MAXN && f < LEN && CLAIMED[f] { f += 1; } f } else { kani::any() };
                kani::assume(p >= PROGRESS && p <= LEN);
                let mut i = 0;
                while i < MAXN {
                    if i < p { kani::assume(CLAIMED[i]); }
                    i += 1;
                }
                PROGRESS = p;
                p
            } else if is_iter(this) && FINISHED {
                LEN
            } else {
                *this.as_ptr()
            }
        }
    }

    pub static mut CUT: usize = usize::MAX;
    pub fn fetch_max(this: &AtomicUsize, val: usize, _o: Ordering) -> usize {
        unsafe {
            if PHASE == 2 && is_iter(this) {
                if CUT == usize::MAX {
                    let c: usize = kani::any();
                    kani::assume(c >= LAST_END && c <= LEN);
                    let mut i = 0;
                    while i < MAXN { if i >= c && i < LEN { kani::assume(!CLAIMED[i]); } i += 1; }
                    CUT = c;
                    c
                } else { LEN }
            } else {
                let p = this.as_ptr();
                let old = *p;
                if val > old { *p = val; }
                old
            }
        }
    }
    pub fn typed_swap<T>(a: &mut T, b: &mut T) {
        unsafe {
            let t = core::ptr::read(a);
            core::ptr::copy_nonoverlapping(b as *const T, a as *mut T, 1);
            core::ptr::write(b, t);
        }
    }
    pub fn on_scope_begin() { unsafe { PHASE = 1; } }
    pub fn on_task_begin() { unsafe { PHASE = 2; LAST_END = 0; } }
    pub fn on_task_end() { unsafe { PHASE = 1; THREAD += 1; } }
    pub fn on_scope_end() {
        unsafe {
            PHASE = 0; FINISHED = true;
            let mut i = 0;
            while i < MAXN { if i < LEN && i < CUT { kani::assume(CLAIMED[i]); } i += 1; }
        }
    }
}

#[cfg(kani)]
mod h {
    use orx_parallel::*;
    use std::num::NonZeroUsize;
    use super::model;

    fn no_lag() {}
    fn ap() -> std::io::Result<NonZeroUsize> {
        Ok(NonZeroUsize::new(2).unwrap())
    }

    macro_rules! sched_harness {
        ($name:ident, $n:expr, $t:expr, $c:expr, $body:expr) => {
            #[kani::proof]
            #[kani::unwind(8)]
            #[kani::stub(orx_parallel::core::runner::lag, no_lag)]
            #[kani::stub(std::thread::available_parallelism, ap)]
            #[kani::stub(std::sync::atomic::Atomic::<usize>::fetch_add, model::fetch_add)]
            #[kani::stub(std::sync::atomic::Atomic::<usize>::load, model::load)]
            #[kani::stub(std::mem::swap, model::typed_swap)]
            #[kani::stub(std::sync::atomic::Atomic::<usize>::fetch_max, model::fetch_max)]
            #[kani::stub(orx_parallel::verif::on_scope_begin, model::on_scope_begin)]
            #[kani::stub(orx_parallel::verif::on_scope_end, model::on_scope_end)]
            #[kani::stub(orx_parallel::verif::on_task_begin, model::on_task_begin)]
            #[kani::stub(orx_parallel::verif::on_task_end, model::on_task_end)]
            fn $name() {
                let a: [u8; $n] = kani::any();
                unsafe { model::LEN = $n; }
                let s = &a[..];
                let f: fn(&[u8], usize, usize) = $body;
                f(s, $t, $c);
            }
        };
    }

    macro_rules! sched_harness_nofm {
        ($name:ident, $n:expr, $t:expr, $c:expr, $body:expr) => {
            #[kani::proof]
            #[kani::unwind(8)]
            #[kani::stub(orx_parallel::core::runner::lag, no_lag)]
            #[kani::stub(std::thread::available_parallelism, ap)]
            #[kani::stub(std::sync::atomic::Atomic::<usize>::fetch_add, model::fetch_add)]
            #[kani::stub(std::sync::atomic::Atomic::<usize>::load, model::load)]
            #[kani::stub(std::mem::swap, model::typed_swap)]
            #[kani::stub(orx_parallel::verif::on_scope_begin, model::on_scope_begin)]
            #[kani::stub(orx_parallel::verif::on_scope_end, model::on_scope_end)]
            #[kani::stub(orx_parallel::verif::on_task_begin, model::on_task_begin)]
            #[kani::stub(orx_parallel::verif::on_task_end, model::on_task_end)]
            fn $name() {
                let a: [u8; $n] = kani::any();
                unsafe { model::LEN = $n; }
                let s = &a[..];
                let f: fn(&[u8], usize, usize) = $body;
                f(s, $t, $c);
            }
        };
    }

    fn count_body(s: &[u8], t: usize, c: usize) {
        let n = s.into_par().num_threads(t).chunk_size(c).map(|x| x.wrapping_add(1)).filter(|x| x & 1 == 0).count();
        let e = s.iter().map(|x| x.wrapping_add(1)).filter(|x| x & 1 == 0).count();
        assert!(n == e);
        // witness: interleaved schedule reachable
        unsafe { kani::cover!(model::OWNER[0] == 1 && model::OWNER[1] == 0 && model::OWNER[2] == 1); }
        unsafe { kani::cover!(model::OWNER[0] == 0 && model::OWNER[1] == 0 && model::OWNER[2] == 0); }
    }
    fn sum_body(s: &[u8], t: usize, c: usize) {
        let n = s.into_par().num_threads(t).chunk_size(c).map(|x| x.wrapping_add(1)).filter(|x| x & 1 == 0).reduce(|a, b| a ^ b);
        let e = s.iter().map(|x| x.wrapping_add(1)).filter(|x| x & 1 == 0).reduce(|a, b| a ^ b);
        assert!(n == e);
    }

    fn collect_body(s: &[u8], t: usize, c: usize) {
        let out = s.into_par().num_threads(t).chunk_size(c).map(|x| x.wrapping_add(1)).filter(|x| x & 1 == 0).collect_vec();
        let mut k = 0;
        for x in s.iter().map(|x| x.wrapping_add(1)).filter(|x| x & 1 == 0) {
            assert!(k < out.len() && out[k] == x);
            k += 1;
        }
        assert!(k == out.len());
    }
    fn collect_nomask_body(s: &[u8], t: usize, c: usize) {
        let out = s.into_par().num_threads(t).chunk_size(c).map(|x| x.wrapping_add(1)).filter(|_| true).collect_vec();
        assert!(out.len() == s.len());
        let mut k = 0;
        while k < s.len() { assert!(out[k] == s[k].wrapping_add(1)); k += 1; }
    }
    fn mapcol_body(s: &[u8], t: usize, c: usize) {
        let out = s.into_par().num_threads(t).chunk_size(c).map(|x| x.wrapping_add(1)).collect_vec();
        assert!(out.len() == s.len());
        let mut k = 0;
        while k < s.len() { assert!(out[k] == s[k].wrapping_add(1)); k += 1; }
    }
    fn find_body(s: &[u8], t: usize, c: usize) {
        let r = s.into_par().num_threads(t).chunk_size(c).map(|x| x.wrapping_add(1)).find(|x| x & 1 == 0);
        let e = s.iter().map(|x| x.wrapping_add(1)).find(|x| x & 1 == 0);
        assert!(r == e);
    }
    #[kani::proof]
    #[kani::unwind(8)]
    #[kani::stub(orx_parallel::core::runner::lag, no_lag)]
    #[kani::stub(std::thread::available_parallelism, ap)]
    #[kani::stub(std::mem::swap, model::typed_swap)]
    fn v3_mapcol() {
        let a: [u8; 3] = kani::any();
        let s = &a[..];
        let out = s.into_par().num_threads(2).chunk_size(1).map(|x| x.wrapping_add(1)).collect_vec();
        assert!(out.len() == 3);
        assert!(out[0] == a[0].wrapping_add(1));
        assert!(out[1] == a[1].wrapping_add(1));
        assert!(out[2] == a[2].wrapping_add(1));
    }
    #[kani::proof]
    #[kani::unwind(8)]
    #[kani::stub(orx_parallel::core::runner::lag, no_lag)]
    #[kani::stub(std::thread::available_parallelism, ap)]
    #[kani::stub(std::mem::swap, model::typed_swap)]
    fn v3_mapcol_seq() {
        let a: [u8; 3] = kani::any();
        let s = &a[..];
        let out = s.into_par().num_threads(1).chunk_size(1).map(|x| x.wrapping_add(1)).collect_vec();
        assert!(out.len() == 3);
        assert!(out[0] == a[0].wrapping_add(1));
        assert!(out[2] == a[2].wrapping_add(1));
    }
    fn mapcol_v1(s: &[u8], t: usize, c: usize) { unsafe { model::VARIANT = 1; } mapcol_body(s, t, c) }
    fn mapcol_v2(s: &[u8], t: usize, c: usize) { unsafe { model::VARIANT = 2; } mapcol_body(s, t, c) }
    fn mapcol_v3(s: &[u8], t: usize, c: usize) { unsafe { model::VARIANT = 3; } mapcol_body(s, t, c) }
    sched_harness!(sched_mapcol_v1, 3, 2, 1, mapcol_v1);
    sched_harness!(sched_mapcol_v2, 3, 2, 1, mapcol_v2);
    sched_harness_nofm!(sched_mapcol_v2_nofm, 3, 2, 1, mapcol_v2);
    sched_harness!(sched_mapcol_v3, 3, 2, 1, mapcol_v3);
    fn vecnew_body(_s: &[u8], _t: usize, _c: usize) {
        let v: Vec<u8> = Vec::new();
        assert!(v.capacity() == 0);
        let w: Vec<u8> = Default::default();
        assert!(w.capacity() == 0);
    }
    sched_harness!(sched_vecnew, 3, 2, 1, vecnew_body);
    #[kani::proof]
    #[kani::unwind(8)]
    #[kani::stub(orx_parallel::core::runner::lag, no_lag)]
    #[kani::stub(std::thread::available_parallelism, ap)]
    #[kani::stub(std::mem::swap, model::typed_swap)]
    #[kani::stub(std::sync::atomic::Atomic::<usize>::fetch_add, model::fetch_add)]
    #[kani::stub(std::sync::atomic::Atomic::<usize>::load, model::load)]
    #[kani::stub(std::sync::atomic::Atomic::<usize>::fetch_max, model::fetch_max)]
    fn e3_passthrough_all() {
        let a: [u8; 3] = kani::any();
        let s = &a[..];
        let out = s.into_par().num_threads(2).chunk_size(1).map(|x| x.wrapping_add(1)).collect_vec();
        assert!(out.len() == 3);
    }
    #[kani::proof]
    #[kani::unwind(8)]
    #[kani::stub(orx_parallel::core::runner::lag, no_lag)]
    #[kani::stub(std::thread::available_parallelism, ap)]
    #[kani::stub(std::mem::swap, model::typed_swap)]
    #[kani::stub(std::sync::atomic::Atomic::<usize>::fetch_add, model::fetch_add)]
    fn e3_passthrough_fa() {
        let a: [u8; 3] = kani::any();
        let s = &a[..];
        let out = s.into_par().num_threads(2).chunk_size(1).map(|x| x.wrapping_add(1)).collect_vec();
        assert!(out.len() == 3);
    }
    #[kani::proof]
    #[kani::unwind(8)]
    #[kani::stub(orx_parallel::core::runner::lag, no_lag)]
    #[kani::stub(std::thread::available_parallelism, ap)]
    #[kani::stub(std::mem::swap, model::typed_swap)]
    #[kani::stub(std::sync::atomic::Atomic::<usize>::load, model::load)]
    fn e3_passthrough_ld() {
        let a: [u8; 3] = kani::any();
        let s = &a[..];
        let out = s.into_par().num_threads(2).chunk_size(1).map(|x| x.wrapping_add(1)).collect_vec();
        assert!(out.len() == 3);
    }
    #[kani::proof]
    #[kani::unwind(8)]
    #[kani::stub(orx_parallel::core::runner::lag, no_lag)]
    #[kani::stub(std::thread::available_parallelism, ap)]
    #[kani::stub(std::mem::swap, model::typed_swap)]
    #[kani::stub(std::sync::atomic::Atomic::<usize>::fetch_max, model::fetch_max)]
    fn e3_passthrough_fm() {
        let a: [u8; 3] = kani::any();
        let s = &a[..];
        let out = s.into_par().num_threads(2).chunk_size(1).map(|x| x.wrapping_add(1)).collect_vec();
        assert!(out.len() == 3);
    }
    sched_harness!(sched_collect_n3_t2_c1, 3, 2, 1, collect_body);
    sched_harness!(sched_collectnm_n3_t2_c1, 3, 2, 1, collect_nomask_body);
    sched_harness!(sched_mapcol_n3_t2_c1, 3, 2, 1, mapcol_body);
    sched_harness!(sched_find_n4_t2_c1, 4, 2, 1, find_body);
    sched_harness!(sched_count_n4_t2_c1, 4, 2, 1, count_body);
    sched_harness!(sched_count_n4_t2_c2, 4, 2, 2, count_body);
    sched_harness!(sched_red_n4_t2_c1, 4, 2, 1, sum_body);
}
