#!/usr/bin/env python3
"""Single entry point of the solver-based checks:  check.py <PROPERTY> --tier quick|thorough

For the given property it
  1. generates a Kani harness crate (path dependency on /repo, hooks cfg on) in a scratch dir,
  2. runs every harness as one CBMC query (parallel workers, memory + time caps),
  3. classifies each outcome (pass / counterexample / vacuous / inconclusive),
  4. replays every counterexample natively against the real library (real threads under a
     deterministic scheduler, dev and release profile) and only then reports a VIOLATION,
  5. writes /verif/evidence/<ID>.json.
Exit codes: 0 property held on everything explored (known findings are printed, not failed)
            1 a violation that reproduces natively and is not a listed known finding
            2 inconclusive (timeout, OOM, vacuous harness, non-reproducing counterexample, ...)
"""
import argparse
import concurrent.futures as cf
import importlib
import json
import os
import re
import shutil
import signal
import subprocess
import sys
import time

VERIF = os.path.dirname(os.path.abspath(__file__))
REPO = os.environ.get("VERIF_REPO", "/repo")
sys.path.insert(0, VERIF)

from gen import harness as HG  # noqa: E402

KANI_FLAGS = ["-Z", "stubbing", "-Z", "mem-predicates", "-Z", "unstable-options",
              "--no-assertion-reach-checks"]
CBMC_ARGS = ["--cbmc-args", "--max-field-sensitivity-array-size", "1024"]
RUSTFLAGS_KANI = "--cfg orx_parallel_verif"
RUSTFLAGS_NATIVE = "--cfg orx_parallel_verif --cfg orx_parallel_verif_threads"


def log(*a):
    print(*a, flush=True)


def sh(cmd, cwd=None, env=None, timeout=None, out=None):
    e = dict(os.environ)
    e.update({"CARGO_NET_OFFLINE": "true"})
    if env:
        e.update(env)
    if out:
        with open(out, "w") as f:
            p = subprocess.Popen(cmd, cwd=cwd, env=e, stdout=f, stderr=subprocess.STDOUT,
                                 start_new_session=True)
            try:
                return p.wait(timeout=timeout)
            except subprocess.TimeoutExpired:
                os.killpg(p.pid, signal.SIGKILL)
                p.wait()
                return 124
    p = subprocess.run(cmd, cwd=cwd, env=e, capture_output=True, text=True, timeout=timeout)
    return p


class Scratch:
    def __init__(self, pid):
        base = os.environ.get("VERIF_SCRATCH") or f"/var/tmp/orxv-{pid}-{os.getpid()}"
        self.dir = base
        shutil.rmtree(base, ignore_errors=True)
        os.makedirs(base)
        self.crate = os.path.join(base, "crate")
        self.logs = os.path.join(base, "logs")
        os.makedirs(self.logs)

    def cleanup(self):
        shutil.rmtree(self.dir, ignore_errors=True)


def write_crate(sc, source):
    os.makedirs(os.path.join(sc.crate, "src", "bin"), exist_ok=True)
    os.makedirs(os.path.join(sc.crate, ".cargo"), exist_ok=True)
    with open(os.path.join(sc.crate, "Cargo.toml"), "w") as f:
        f.write(f"""[package]
name = "orxv"
version = "0.0.0"
edition = "2021"

[lib]
path = "src/lib.rs"

[[bin]]
name = "replay"
path = "src/bin/replay.rs"

[dependencies]
orx-parallel = {{ path = "{REPO}" }}
orx-concurrent-iter = "1.30.0"
orx-split-vec = "3.15"
orx-fixed-vec = "3.15"
orx-pinned-vec = "3.15"

[workspace]

[profile.release]
debug-assertions = false
overflow-checks = false

[lints.rust]
unexpected_cfgs = {{ level = "allow" }}
""")
    lock = os.path.join(REPO, "Cargo.lock")
    if not os.path.exists(lock):  # a snapshot of the repository without untracked files
        lock = "/repo/Cargo.lock"
    shutil.copy(lock, os.path.join(sc.crate, "Cargo.lock"))
    with open(os.path.join(sc.crate, ".cargo", "config.toml"), "w") as f:
        f.write("[net]\noffline = true\n")
    with open(os.path.join(sc.crate, "src", "lib.rs"), "w") as f:
        f.write(source)
    with open(os.path.join(sc.crate, "src", "bin", "replay.rs"), "w") as f:
        f.write("fn main() { orxv::native::replay_main(); }\n")


def kani_cmd(harness, target_dir, extra=()):
    return (["cargo", "kani"] + KANI_FLAGS + ["--harness", harness, "--exact",
                                              "--target-dir", target_dir] + list(extra) + CBMC_ARGS)


def limited(cmd, mem_kb, timeout_s):
    inner = " ".join(shq(c) for c in cmd)
    return ["bash", "-c", f"ulimit -v {mem_kb}; exec timeout -k 5 {timeout_s} {inner}"]


def shq(s):
    return "'" + s.replace("'", "'\\''") + "'"


CHECK_RE = re.compile(r"^Check (\d+): (.+?)\s*$")


def parse_kani_log(path):
    """-> dict(status, failed=[(name, descr, loc)], covers={name: status}, stats)"""
    txt = open(path, errors="replace").read()
    res = {"status": None, "failed": [], "covers": {}, "stats": {}, "raw_tail": txt[-1500:]}
    m = re.search(r"^VERIFICATION:- (\w+)", txt, re.M)
    if m:
        res["status"] = m.group(1)
    lines = txt.splitlines()
    i = 0
    while i < len(lines):
        m = CHECK_RE.match(lines[i])
        if m:
            name = m.group(2)
            status = descr = loc = ""
            j = i + 1
            while j < len(lines) and lines[j].strip() and not CHECK_RE.match(lines[j]):
                s = lines[j].strip()
                if s.startswith("- Status:"):
                    status = s.split(":", 1)[1].strip()
                elif s.startswith("- Description:"):
                    descr = s.split(":", 1)[1].strip()
                    # descriptions may wrap
                    k = j + 1
                    while k < len(lines) and lines[k].strip() and not lines[k].strip().startswith("- "):
                        descr += " " + lines[k].strip()
                        k += 1
                elif s.startswith("- Location:"):
                    loc = s.split(":", 1)[1].strip()
                j += 1
            if ".cover." in name:
                res["covers"][name] = (status, descr)
            elif status in ("FAILURE", "UNDETERMINED") or (status not in ("SUCCESS", "UNREACHABLE", "SATISFIED", "") ):
                res["failed"].append((name, status, descr, loc))
            i = j
        else:
            i += 1
    st = res["stats"]
    st["symex_s"] = sum(float(x) for x in re.findall(r"Runtime Symex: ([\d.]+)s", txt))
    st["solver_s"] = sum(float(x) for x in re.findall(r"Runtime Solver: ([\d.]+)s", txt))
    st["decision_s"] = sum(float(x) for x in re.findall(r"Runtime decision procedure: ([\d.]+)s", txt))
    m = re.search(r"size of program expression: (\d+) steps", txt)
    st["steps"] = int(m.group(1)) if m else 0
    m = re.search(r"Generated (\d+) VCC\(s\), (\d+) remaining after simplification", txt)
    st["vccs"] = int(m.group(1)) if m else 0
    st["vccs_remaining"] = int(m.group(2)) if m else 0
    vs = re.findall(r"(\d+) variables, (\d+) clauses", txt)
    st["sat_vars"] = max([int(v) for v, _ in vs], default=0)
    st["sat_clauses"] = max([int(c) for _, c in vs], default=0)
    m = re.search(r"Verification Time: ([\d.]+)s", txt)
    st["kani_s"] = float(m.group(1)) if m else 0.0
    res["stubs"] = len(re.findall(r"^\s*- Stub: ", txt, re.M))
    res["oom"] = bool(re.search(r"Status: ERROR|std::bad_alloc|Out of memory|SIGKILL|memory exhausted|run out of memory|ran out of memory|CBMC failed", txt))
    res["compile_error"] = bool(re.search(r"^error(\[E\d+\])?:", txt, re.M)) and res["status"] is None
    return res


def parse_playback(path):
    """concrete values printed by --concrete-playback=print -> list of byte lists"""
    txt = open(path, errors="replace").read()
    m = re.search(r"let concrete_vals: Vec<Vec<u8>> = vec!\[(.*?)\n\s*\];", txt, re.S)
    if not m:
        return None
    vals = []
    for vm in re.finditer(r"vec!\[([^\]]*)\]", m.group(1)):
        body = vm.group(1).strip()
        vals.append([int(x) for x in body.split(",") if x.strip()] if body else [])
    return vals


def mem_available_kb():
    try:
        for line in open("/proc/meminfo"):
            if line.startswith("MemAvailable:"):
                return int(line.split()[1])
    except OSError:
        pass
    return 1 << 40


def wait_for_memory(need_kb, max_wait=900):
    """do not start another solver while the machine is short of memory (no swap here)"""
    t0 = time.time()
    while mem_available_kb() < need_kb + 4 * 1024 * 1024 and time.time() - t0 < max_wait:
        time.sleep(5)


def parse_playbacks(path):
    """all concrete-value vectors printed by --concrete-playback=print (one per failed check / satisfied cover)"""
    txt = open(path, errors="replace").read()
    out = []
    for m in re.finditer(r"let concrete_vals: Vec<Vec<u8>> = vec!\[(.*?)\n\s*\];", txt, re.S):
        vals = []
        for vm in re.finditer(r"vec!\[([^\]]*)\]", m.group(1)):
            body = vm.group(1).strip()
            vals.append([int(x) for x in body.split(",") if x.strip()] if body else [])
        out.append(vals)
    return out


class Runner:
    def __init__(self, pid, tier, seed, jobs, keep):
        self.pid, self.tier, self.seed, self.jobs, self.keep = pid, tier, seed, jobs, keep
        self.sc = Scratch(pid)
        self.base_target = os.path.join(self.sc.dir, "tgt-base")
        self.native_built = {}

    # -- kani
    def prebuild(self, first):
        t0 = time.time()
        out = os.path.join(self.sc.logs, "_prebuild.log")
        rc = sh(kani_cmd(first, self.base_target, ["--only-codegen"]), cwd=self.sc.crate,
                env={"RUSTFLAGS": RUSTFLAGS_KANI}, timeout=900, out=out)
        if rc != 0:
            log(open(out, errors="replace").read()[-4000:])
            raise SystemExit(self.inconclusive_exit(f"harness crate does not build (rc={rc}); see above"))
        return time.time() - t0

    def run_harness(self, h, idx, playback=False):
        tgt = os.path.join(self.sc.dir, f"tgt-{idx}")
        if not os.path.exists(tgt):
            shutil.copytree(self.base_target, tgt, symlinks=True)
        suffix = ".pb" if playback else ""
        out = os.path.join(self.sc.logs, h.name + suffix + ".log")
        extra = ["-Z", "concrete-playback", "--concrete-playback=print"] if playback else []
        # the playback run (trace generation) needs clearly more memory and time than the verdict run
        mem_kb = h.mem_kb("thorough") if playback else h.mem_kb(self.tier)
        tmo = 3 * h.timeout_s(self.tier) if playback else h.timeout_s(self.tier)
        cmd = limited(kani_cmd(h.name, tgt, extra), mem_kb, tmo)
        wait_for_memory(mem_kb // 2)
        t0 = time.time()
        rc = sh(cmd, cwd=self.sc.crate, env={"RUSTFLAGS": RUSTFLAGS_KANI}, out=out, timeout=tmo + 60)
        wall = time.time() - t0
        shutil.rmtree(tgt, ignore_errors=True)
        r = parse_kani_log(out)
        r.update(rc=rc, wall=wall, log=out, name=h.name)
        return r

    def classify(self, h, r):
        """-> (verdict, reason)   verdict in pass | cex | vacuous | inconclusive"""
        if r["rc"] in (124, 137) or (r["status"] is None and r["rc"] != 0 and not r["compile_error"]):
            if r["oom"]:
                return "inconclusive", "out of memory"
            if r["rc"] in (124, 137):
                return "inconclusive", f"timeout after {h.timeout_s(self.tier)}s"
            return "inconclusive", f"kani/cbmc ended abnormally rc={r['rc']}"
        if r["compile_error"]:
            return "inconclusive", "harness does not compile"
        if r["status"] is None:
            return "inconclusive", "no verdict in log"
        if h.sched and r["stubs"] < 6:
            return "inconclusive", "stubs were not applied"
        unsat = [k for k, (s, _) in r["covers"].items() if s != "SATISFIED"]
        if r["status"] == "SUCCESSFUL":
            if r["failed"]:
                return "inconclusive", "successful but failed checks listed"
            if len(r["covers"]) < h.n_covers:
                return "inconclusive", f"only {len(r['covers'])} of {h.n_covers} reachability witnesses reported"
            if unsat:
                return "vacuous", "unreachable witness: " + "; ".join(r["covers"][k][1] for k in unsat)[:300]
            return "pass", ""
        # FAILED
        if r["oom"]:
            return "inconclusive", "CBMC error / out of memory"
        real = []
        for (name, status, descr, loc) in r["failed"]:
            if status == "FAILURE" and (".unwind." in name or "unwinding assertion" in descr):
                return "inconclusive", f"unwinding bound too small: {name[:200]} @ {loc[-120:]}"
        for (name, status, descr, loc) in r["failed"]:
            if status != "FAILURE":
                continue
            if "VERIF-MODEL" in descr:
                return "inconclusive", f"outside the schedule model: {descr}"
            if "not currently supported by Kani" in descr or ".unsupported_construct." in name:
                return "inconclusive", f"unsupported construct reached: {descr[:120]}"
            real.append((name, status, descr, loc))
        if not real:
            und = [x for x in r["failed"] if x[1] != "FAILURE"]
            if und:
                return "inconclusive", f"undetermined checks: {und[0][0][:100]}: {und[0][2][:120]}"
            if unsat and not r["failed"]:
                return "vacuous", "unreachable witness"
            return "inconclusive", "FAILED without an identifiable failing check"
        return "cex", "; ".join(f"{n}: {d} @ {l}" for n, _, d, l in real)[:600]

    # -- native replay
    def build_native(self, profile):
        if profile in self.native_built:
            return self.native_built[profile]
        tgt = os.path.join(self.sc.dir, "tgt-native")
        cmd = ["cargo", "build", "--offline", "--bin", "replay", "--target-dir", tgt]
        if profile == "release":
            cmd.append("--release")
        out = os.path.join(self.sc.logs, f"_native_{profile}.log")
        rc = sh(cmd, cwd=self.sc.crate, env={"RUSTFLAGS": RUSTFLAGS_NATIVE}, timeout=1200, out=out)
        exe = os.path.join(tgt, "release" if profile == "release" else "debug", "replay")
        if rc != 0 or not os.path.exists(exe):
            log(open(out, errors="replace").read()[-3000:])
            exe = None
        self.native_built[profile] = exe
        return exe

    def replay_native(self, h, vals, profile, lenient=False):
        """-> (reproduced: bool|None, output)"""
        exe = self.build_native(profile)
        if exe is None:
            return None, "native replay binary does not build"
        arg = json.dumps({"harness": h.name, "vals": vals})
        try:
            env = dict(os.environ)
            if lenient:
                env["VERIF_REPLAY_LENIENT"] = "1"
            p = subprocess.run([exe, arg], capture_output=True, text=True, timeout=120, env=env)
        except subprocess.TimeoutExpired:
            return None, "native replay timed out (schedule not realisable or deadlock)"
        out = (p.stdout + p.stderr)[-3000:]
        if "REPLAY-RESULT: violated" in out:
            return True, out
        if "REPLAY-RESULT: held" in out:
            return False, out
        if "REPLAY-RESULT: invalid" in out:
            return None, out
        # a panic outside the harness' own assertions (e.g. arithmetic overflow in the library)
        if p.returncode != 0:
            return True, out
        return None, out

    def inconclusive_exit(self, msg):
        log(f"INCONCLUSIVE property={self.pid}: {msg}")
        return 2


def load_known_findings():
    p = os.path.join(VERIF, "known_findings.json")
    if not os.path.exists(p):
        return []
    return json.load(open(p)).get("findings", [])


def main():
    ap = argparse.ArgumentParser()
    ap.add_argument("property")
    ap.add_argument("--tier", default=os.environ.get("VERIF_TIER", "quick"), choices=["quick", "thorough"])
    ap.add_argument("--jobs", type=int, default=int(os.environ.get("VERIF_JOBS", "0")))
    ap.add_argument("--only", default=None, help="regex on harness names")
    ap.add_argument("--keep", action="store_true", help="keep the scratch directory")
    ap.add_argument("--list", action="store_true")
    ap.add_argument("--replay", default=None, help="replay a saved counterexample file")
    ap.add_argument("--no-evidence", action="store_true")
    args = ap.parse_args()
    pid = args.property.upper()
    seed = int(os.environ.get("VERIF_SEED", "0"))
    t_start = time.time()

    mod = importlib.import_module(f"props.{pid.lower()}")
    hs = mod.harnesses(args.tier, seed)
    if args.only:
        hs = [h for h in hs if re.search(args.only, h.name)]
    if args.list:
        for h in hs:
            print(h.name, json.dumps(h.desc))
        return 0
    if not hs:
        log(f"INCONCLUSIVE property={pid}: no harnesses selected")
        return 2
    jobs = args.jobs or max(1, min(14, (os.cpu_count() or 4) - 2))

    rn = Runner(pid, args.tier, seed, jobs, args.keep)
    try:
        return run(rn, mod, hs, args, t_start)
    finally:
        if not args.keep:
            rn.sc.cleanup()
        else:
            log(f"scratch kept at {rn.sc.dir}")


def run(rn, mod, hs, args, t_start):
    pid = rn.pid
    write_crate(rn.sc, HG.render_crate(hs))
    if args.replay:
        return replay_saved(rn, hs, args.replay)
    log(f"[{pid}] {len(hs)} harnesses, tier={rn.tier}, jobs={rn.jobs}, repo={REPO}")
    tb = rn.prebuild(hs[0].name)
    log(f"[{pid}] harness crate built in {tb:.0f}s")

    results = {}
    # cheap ones last does not matter; run longest first to balance
    order = sorted(range(len(hs)), key=lambda i: -hs[i].weight)
    with cf.ThreadPoolExecutor(max_workers=rn.jobs) as ex:
        futs = {ex.submit(rn.run_harness, hs[i], i): i for i in order}
        done = 0
        for f in cf.as_completed(futs):
            i = futs[f]
            r = f.result()
            v, why = rn.classify(hs[i], r)
            r["verdict"], r["why"] = v, why
            results[i] = r
            done += 1
            log(f"[{pid}] {done}/{len(hs)} {hs[i].name}: {v} {why[:160]} ({r['wall']:.0f}s, solver {r['stats'].get('solver_s', 0):.1f}s)")

    known = [k for k in load_known_findings() if k.get("property") == pid and k.get("status", "open") == "open"]
    violations, findings_hit, inconclusive = [], [], []
    os.makedirs(os.path.join(VERIF, "replays"), exist_ok=True)
    replays_done = 0
    for i, h in enumerate(hs):
        r = results[i]
        if r["verdict"] == "pass":
            continue
        if r["verdict"] in ("vacuous", "inconclusive"):
            inconclusive.append((h, r))
            continue
        # counterexample: extract concrete values, replay natively
        pb = rn.run_harness(h, f"pb{i}", playback=True)
        # Kani prints one concrete-value vector per failed check AND per satisfied reachability witness, without saying
        # which is which: try them in turn until one reproduces the violation natively
        cands = parse_playbacks(pb["log"])[:8]
        rec = {"property": pid, "harness": h.name, "desc": h.desc, "kani_failure": r["why"],
               "concrete_vals": None, "tier": rn.tier}
        lenient = False
        if not cands:
            # Kani's playback prints nothing when no nondeterministic value matters for the failure (typical for the
            # shape-enumerated harnesses whose schedule is a constant of the harness): replay with zero values; the
            # harness' assumptions are still checked natively, and a native violation is a violation whatever the input
            cands, lenient = [[]], True
        outcomes, vals = {}, cands[0]
        for cand in cands:
            outcomes = {}
            for profile in h.replay_profiles:
                ok, out = rn.replay_native(h, cand, profile, lenient=lenient)
                outcomes[profile] = {"reproduced": ok, "output": out[-1500:]}
                replays_done += 1
            vals = cand
            if any(o["reproduced"] for o in outcomes.values()):
                break
        rec["concrete_vals"] = vals if not lenient else "none extracted by Kani; replayed with zero values (assumptions checked natively)"
        rec["candidates_tried"] = len(cands)
        rec["native"] = outcomes
        repro = [p for p, o in outcomes.items() if o["reproduced"]]
        path = os.path.join(VERIF, "replays", f"{pid}_{h.name}.json")
        json.dump(rec, open(path, "w"), indent=1)
        r["replay"] = path
        if not repro:
            r["why"] += " | counterexample did NOT reproduce natively: " + json.dumps({p: o["reproduced"] for p, o in outcomes.items()})
            inconclusive.append((h, r))
            continue
        kf = match_known(known, h, rec)
        if kf:
            findings_hit.append((kf, h, r))
        else:
            violations.append((h, r, path, repro))

    # ---- validate the schedule model against the implementation: replay reachability-witness traces of passing
    # harnesses (concrete schedules the model admits) natively on real threads; they must be realisable and hold
    witness = {"replayed": 0, "held": 0, "not_realised": 0, "violated": 0, "samples": []}
    n_w = int(os.environ.get("VERIF_WITNESS_REPLAYS", "2" if rn.tier == "quick" else "8"))
    if n_w > 0 and not violations and not args.only:
        cands = [i for i, h in enumerate(hs) if results[i]["verdict"] == "pass" and h.sched and results[i]["covers"]
                 and h.desc.get("schedule") == "symbolic"
                 # a pipeline without closures has no probe points: the native scheduler cannot interleave its workers
                 and h.desc.get("type") != "E"]
        # playback runs are serial and cost about as much as the query itself: only the cheap ones
        cands = [i for i in sorted(cands, key=lambda i: results[i]["wall"]) if results[i]["wall"] <= 300][:n_w]
        for i in cands:
            pb = rn.run_harness(hs[i], f"w{i}", playback=True)
            for vals in parse_playbacks(pb["log"])[:3]:
                ok, out = rn.replay_native(hs[i], vals, "dev")
                witness["replayed"] += 1
                replays_done += 1
                kind = "violated" if ok else ("held" if ok is False else "not_realised")
                witness[kind] += 1
                if len(witness["samples"]) < 4 or kind != "held":
                    witness["samples"].append({"harness": hs[i].name, "vals": vals[:12], "native": kind, "output": out[-200:]})
                if kind == "violated":
                    r = dict(results[i])
                    r["verdict"], r["why"] = "inconclusive", ("a schedule the model accepts as passing violates the harness assertion natively "
                                                             "(model / implementation disagreement): " + out[-300:])
                    inconclusive.append((hs[i], r))
        log(f"[{pid}] witness traces replayed natively: {witness['replayed']} (held {witness['held']}, "
            f"not realised {witness['not_realised']}, violated {witness['violated']})")
    rn.witness = witness

    # thorough tier = exploration under a resource budget: a query that hits the wall / memory cap is *not explored*
    # (reported as such, listed in the evidence, never counted as discharged); more than a handful of them means
    # something systematic is wrong and stays inconclusive.  The quick tier tolerates none.
    unexplored = []
    if rn.tier == "thorough" and not violations:
        res = [(h, r) for h, r in inconclusive
               if r["verdict"] == "inconclusive" and r["why"].startswith(("timeout after", "out of memory", "CBMC error / out of memory"))]
        if res and len(res) <= max(3, len(hs) // 50):
            unexplored = res
            inconclusive = [(h, r) for h, r in inconclusive if not any(h is h2 for h2, _ in res)]
    rn.unexplored = unexplored

    wall = time.time() - t_start
    if not args.no_evidence:
        write_evidence(rn, mod, hs, results, violations, findings_hit, inconclusive, replays_done, wall)
    for h, r in unexplored:
        log(f"UNEXPLORED property={pid} harness={h.name}: {r['why'][:200]} (resource cap of the thorough tier; not counted as discharged)")

    seen = set()
    for kf, h, r in findings_hit:
        if kf["id"] not in seen:
            seen.add(kf["id"])
            log(f"KNOWN-FINDING: property={pid} {kf['what']}")
    for h, r, path, repro in violations:
        log(f"VIOLATION property={pid} replay={path}")
        log(f"  harness {h.name}: {r['why'][:400]} (reproduced natively: {','.join(repro)})")
    for h, r in inconclusive:
        log(f"INCONCLUSIVE property={pid} harness={h.name}: {r['verdict']}: {r['why'][:400]} log={r['log']}")
    if violations:
        return 1
    if inconclusive:
        if rn.keep is False:
            # keep the logs of inconclusive harnesses for triage
            dst = os.path.join(VERIF, "replays", f"{pid}_inconclusive_logs")
            shutil.rmtree(dst, ignore_errors=True)
            os.makedirs(dst, exist_ok=True)
            for h, r in inconclusive[:10]:
                try:
                    shutil.copy(r["log"], dst)
                except OSError:
                    pass
        return 2
    npass = sum(1 for r in results.values() if r["verdict"] == "pass")
    log(f"[{pid}] OK: {npass} of {len(hs)} queries discharged, {len(unexplored)} not explored (resource cap), "
        f"{len(findings_hit)} hit listed known findings, 0 new violations, wall {wall:.0f}s")
    return 0


def match_known(known, h, rec):
    for k in known:
        m = k.get("match", {})
        if all(str(h.desc.get(key)) == str(val) for key, val in m.items()):
            return k
    return None


def replay_saved(rn, hs, path):
    rec = json.load(open(path))
    h = next((x for x in hs if x.name == rec["harness"]), None)
    if h is None:
        log(f"harness {rec['harness']} not generated for this tier; try --tier {rec.get('tier')}")
        return 2
    any_repro = False
    vals = rec["concrete_vals"]
    lenient = not isinstance(vals, list)
    for profile in h.replay_profiles:
        ok, out = rn.replay_native(h, vals if not lenient else [], profile, lenient=lenient)
        log(f"--- native replay ({profile}): reproduced={ok}\n{out}")
        any_repro |= bool(ok)
    if any_repro:
        log(f"VIOLATION property={rn.pid} replay={path}")
        return 1
    return 0


def write_evidence(rn, mod, hs, results, violations, findings_hit, inconclusive, replays_done, wall):
    meta = mod.META
    st = [results[i]["stats"] for i in range(len(hs))]
    passed = [i for i in range(len(hs)) if results[i]["verdict"] == "pass"]
    witnesses = sum(1 for i in passed for k, (s, _) in results[i]["covers"].items() if s == "SATISFIED")
    nontrivial = sum(1 for i in passed if results[i]["covers"] and all(s == "SATISFIED" for s, _ in results[i]["covers"].values()))
    samples = []
    for i in (passed[:3] + [j for j in range(len(hs)) if results[j]["verdict"] != "pass"][:3]):
        samples.append({"harness": hs[i].name, "config": hs[i].desc, "verdict": results[i]["verdict"],
                        "why": results[i]["why"][:300],
                        "solver_s": st[i].get("solver_s"), "vccs": st[i].get("vccs"),
                        "sat_vars": st[i].get("sat_vars"), "sat_clauses": st[i].get("sat_clauses"),
                        "witnesses": {k: v[0] for k, v in results[i]["covers"].items()}})
    ev = {
        "property_id": rn.pid,
        "tier": rn.tier,
        "seed": rn.seed,
        "level": "model_checking",
        "coverage": {
            "evaluations": len(hs),
            "distinct_nontrivial": nontrivial,
            "rule": ("one evaluation = one CBMC query (one generated Kani harness = one fixed configuration with symbolic "
                     "data / schedule, see 'bounds'); distinct by construction (harness names encode the configuration); "
                     "non-trivial = the query passed AND every kani::cover! reachability witness in it was SATISFIED "
                     "(the final assertion is reachable and the interesting schedules / branches exist in the encoding)"),
            "samples": samples,
            "states": sum(s.get("steps", 0) for s in st) or 1,
            "transitions": sum(s.get("vccs", 0) for s in st) or 1,
            "traces_validated_against_impl": replays_done,
            "explanation": ("bounded model checking of the compiled code with Kani/CBMC: 'states' = total symbolic-execution "
                            "steps over all queries, 'transitions' = verification conditions generated; both measured from the CBMC logs"),
            "exhaustive": False,
            "queries_discharged": len(passed),
            "queries_total": len(hs),
            "reachability_witnesses_satisfied": witnesses,
            "solver_time_s": round(sum(s.get("solver_s", 0) for s in st), 2),
            "symex_time_s": round(sum(s.get("symex_s", 0) for s in st), 2),
            "sat_variables_max": max([s.get("sat_vars", 0) for s in st], default=0),
            "sat_clauses_max": max([s.get("sat_clauses", 0) for s in st], default=0),
            "functions_encoded": meta.get("functions", []),
            "bounds": meta.get("bounds", {}).get(rn.tier, meta.get("bounds", {})),
            "outside_bounds": meta.get("outside", []),
            "engine": "Kani 0.68.0 / CBMC 6.11.0 (cadical), unwinding assertions on",
            "inconclusive": [{"harness": h.name, "why": r["why"][:200]} for h, r in inconclusive],
            "unexplored_resource_cap": [{"harness": h.name, "why": r["why"][:200]} for h, r in getattr(rn, "unexplored", [])],
            "known_findings_hit": sorted({k["id"] for k, _, _ in findings_hit}),
            "witness_traces_replayed_natively": getattr(rn, "witness", {}),
            "configs": [h.desc for h in hs][:400],
        },
        "assumptions": meta.get("assumptions", []),
        "wall_s": round(wall, 1),
        "violations": len(violations),
    }
    os.makedirs(os.path.join(VERIF, "evidence"), exist_ok=True)
    json.dump(ev, open(os.path.join(VERIF, "evidence", f"{rn.pid}.json"), "w"), indent=1)


if __name__ == "__main__":
    sys.exit(main())
