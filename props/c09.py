"""C09 sequential mode is identical to std iterator execution."""
from props.common import *

META = {
    "functions": ["Params::is_sequential", "orx_parallel::core::*::seq_* (seq_map_col, seq_map_fil_col_vec/_pinned_vec, seq_map_fil_cnt, "
                  "seq_map_fil_red, seq_map_fil_find, the filtermap_* and flatmap_* counterparts)",
                  "collect_into::{vec, split_vec}::* sequential branches", "all terminals of Par on the eight Par types",
                  "ConIterOf{Slice,Vec,Range,Iter}::into_seq_iter"],
    "bounds": {"quick": {"n": 3, "chunk_size argument": "any usize (symbolic, through From<usize>)", "element": "u8 symbolic with position tag"},
               "thorough": {"n": 4, "sources": "slice, vec, range, exact-size and unknown-size iterators"}},
    "outside": ["n above the bound"],
    "assumptions": ["std::thread::available_parallelism() = Ok(2); its Err branch is outside the claim",
                    "stub: orx_parallel::core::runner::lag -> no-op", "no schedule is involved: nothing is spawned (asserted)"],
}

TERMS_VAL = ["count", "reduce_nc", "reduce_sub", "fold_nc", "find", "first", "any", "all", "min", "max", "sum",
             "collect_vec", "collect", "min_by_key"]


def h(term, ty, src, n):
    p = Pipeline(src, chain_for(ty), count_calls=True)
    body = input_decl(n, tagged=True)
    body += "    let cs: usize = kani::any();\n    model::begin_unscheduled(2);\n"
    if src == "deque":
        body += "    let dq: VecDeque<u8> = a.iter().copied().collect();\n"
    code = terminal_code(p, ".num_threads(1).chunk_size(cs)", term, n)
    body += code
    body += '    assert!(model::scopes() == 0, "sequential mode entered a thread scope");\n'
    body += '    assert!(order_ok(), "a stage saw its elements out of source order in sequential mode");\n'
    body += "    kani::cover!(cs > 1);\n"
    name = cfg_name("c09", term, ty, src, f"n{n}")
    return H(name, body, {"terminal": term, "type": ty, "src": src, "n": n, "threads": 1, "chunk": "symbolic usize",
                          "schedule": "sequential mode"},
             # map-only collects into / through a SplitVec convert it to a ConcurrentSplitVec: a loop over its 32 fragments
             unwind=(34 if (ty in ("E", "M") and (term == "collect" or (term == "collect_vec" and src in ("iterf", "itervf"))))
                     else 2 * n + 3 if ty in ("FL", "FLF") else n + 3),
             weight=n * 2 + (6 if term.startswith("collect") else 0))


def harnesses(tier, seed):
    hs = []
    if tier == "quick":
        plan = [("reduce_nc", "MF"), ("reduce_sub", "FMF"), ("fold_nc", "FLF"), ("count", "F"), ("find", "FM"), ("first", "FL"),
                ("collect_vec", "M"), ("collect_vec", "MF"), ("collect_vec", "FMF"), ("collect", "MF"),
                ("all", "E"), ("min_by_key", "M")]
        for term, ty in plan:
            src = "vec" if (ty in ("E", "F") and term not in ("count", "find", "first", "any", "all", "collect_vec", "collect")) else "slice"
            hs.append(h(term, ty, src, 3))
        # sequential flat_map collect: with symbolic fan-out it costs ~8 min (thorough tier); here with fixed fan-outs
        for k in ((2, 1), (0, 2), (1, 1)):
            hs.append(collect_harness("c09", "collect_vec", "FLF", "slice", 2, 1, 1, None, k, chunk_expr="cs",
                                      extra_pre="    let cs: usize = kani::any();\n",
                                      extra_post='    assert!(model::scopes() == 0, "sequential mode entered a thread scope");\n'))
    else:
        for ty in ("E", "M", "F", "MF", "FM", "FMF", "FL", "FLF"):
            for term in TERMS_VAL:
                fl = ty in ("FL", "FLF")
                if fl and term.startswith("collect"):
                    hs.append(h(term, ty, "slice", 2))   # symbolic fan-out: vector lengths symbolic, ~8 min at n = 2
                    continue
                needs_val = term in ("reduce_nc", "reduce_sub", "fold_nc", "min_by_key")
                src = "vec" if (ty in ("E", "F") and needs_val) else "slice"
                hs.append(h(term, ty, src, 3 if fl else 4))
            for src in ("vec", "range", "iter", "iterf", "deque"):
                for term in ("count", "collect_vec", "find"):
                    if ty in ("FL", "FLF") and term == "collect_vec":
                        continue
                    hs.append(h(term, ty, src, 3))
        # sequential flat_map collect: with symbolic fan-out it costs ~8 min (thorough tier); here with fixed fan-outs
        for k in ((2, 1), (0, 2), (1, 1)):
            hs.append(collect_harness("c09", "collect_vec", "FLF", "slice", 2, 1, 1, None, k, chunk_expr="cs",
                                      extra_pre="    let cs: usize = kani::any();\n",
                                      extra_post='    assert!(model::scopes() == 0, "sequential mode entered a thread scope");\n'))
    return hs
