"""C12 parameters propagate unchanged through every transformation."""
from props.common import *
from gen.dsl import Op, TRANSITIONS

META = {
    "functions": ["Params::{with_num_threads, with_chunk_size, is_sequential, default}", "From<usize> for NumThreads / ChunkSize",
                  "Par::{params, num_threads, chunk_size, map, filter, flat_map, filter_map} of all eight Par types",
                  "IntoPar / AsPar / IterIntoPar constructors (default params)"],
    "bounds": {"quick": {"values": "num_threads, chunk_size: any usize (symbolic) at lazy sites; {1} x {0,1,2} at the eager sites (the inner collect stays sequential)",
                         "chains": "8 Par types x 4 transformations, parameters set before the chain, re-set after the transformation"},
               "thorough": {"chains": "same, plus parameters set in the middle of 2-transformation chains and three sources"}},
    "outside": ["chains longer than type-reaching chain + 1 transformation + re-configuration"],
    "assumptions": ["at the eight eager sites the inner collect runs under the first-worker-drains-all schedule",
                    "std::thread::available_parallelism() = Ok(2)"],
}

EXPECT = ("Params {{ num_threads: if {x} == 0 {{ NumThreads::Auto }} else {{ NumThreads::Max(NonZeroUsize::new({x}).unwrap()) }}, "
          "chunk_size: if {y} == 0 {{ ChunkSize::Auto }} else {{ ChunkSize::Exact(NonZeroUsize::new({y}).unwrap()) }} }}")

OPS = {"map": M(2), "filter": F(4), "filter_map": FM(5), "flat_map": FL(6)}


def h(ty, opname, src, concrete=None, mid=False):
    base = chain_for(ty)
    op = OPS[opname]
    eager = TRANSITIONS[(ty, opname)].endswith("!")
    p0 = Pipeline(src, base)
    p1 = Pipeline(src, base + [op])
    body = "    let a: [u8; 2] = [0, 1];\n    model::begin_unscheduled(2);\n"
    if src == "deque":
        body += "    let dq: VecDeque<u8> = a.iter().copied().collect();\n"
    if concrete is None:
        body += "    let x: usize = kani::any();\n    let y: usize = kani::any();\n"
    else:
        body += f"    let x: usize = {concrete[0]};\n    let y: usize = {concrete[1]};\n"
    body += "    let x2: usize = kani::any();\n    let y2: usize = kani::any();\n"
    body += "    let d = " + p0.chain(p0.par_src()) + ";\n"
    body += '    assert!(d.params() == Params::default() && d.params().num_threads == NumThreads::Auto && d.params().chunk_size == ChunkSize::Auto, "defaults are not Auto/Auto");\n'
    if mid and base:
        # parameters set in the middle of the chain (after the first transformation)
        body += "    let p = " + p0.chain(p0.par_src(), param_at=0, params=".num_threads(x).chunk_size(y)") + ";\n"
    else:
        body += "    let p = " + p0.chain(p0.par_src(), param_at=None, params=".num_threads(x).chunk_size(y)") + ";\n"
    body += f'    assert!(p.params() == {EXPECT.format(x="x", y="y")}, "params lost before the transformation");\n'
    kind = p0.final_kind()
    body += f"    let q = p.{opname}({p1.closure(op, kind, len(base))});\n"
    body += f'    assert!(q.params() == {EXPECT.format(x="x", y="y")}, "the transformation altered the params");\n'
    body += '    assert!(q.params().is_sequential() == (x == 1), "is_sequential is not (num_threads == Max(1))");\n'
    body += "    let q = q.num_threads(x2);\n"
    body += f'    assert!(q.params() == {EXPECT.format(x="x2", y="y")}, "num_threads did not replace exactly one field");\n'
    body += "    let q = q.chunk_size(y2);\n"
    body += f'    assert!(q.params() == {EXPECT.format(x="x2", y="y2")}, "chunk_size did not replace exactly one field");\n'
    body += '    assert!(q.params().is_sequential() == (x2 == 1), "is_sequential is not (num_threads == Max(1))");\n'
    body += "    kani::cover!(x2 == 1 && y2 > 1);\n"
    tag = "" if concrete is None else f"x{concrete[0]}y{concrete[1]}"
    name = cfg_name("c12", ty, opname, src, tag, "mid" if mid else "")
    return H(name, body, {"type": ty, "op": opname, "src": src, "eager_site": eager, "n": 2, "threads": 2,
                          "values": "symbolic" if concrete is None else list(concrete), "set_at": "middle" if mid else "source"},
             unwind=5 if not (eager and concrete and concrete[0] != 1) else 9, weight=3 + (4 if eager else 0))


def harnesses(tier, seed):
    hs = []
    for ty in ("E", "M", "F", "MF", "FM", "FMF", "FL", "FLF"):
        for opname in ("map", "filter", "filter_map", "flat_map"):
            eager = TRANSITIONS[(ty, opname)].endswith("!")
            if eager:
                # num_threads != 1 makes the inner collect of an eager site a parallel heap merge over vectors of symbolic
                # length: > 28 GB per query (measured); the params themselves are what this property is about
                grid = ((1, 2), (1, 0)) if tier == "quick" else ((1, 0), (1, 1), (1, 2))
                for xy in grid:
                    hs.append(h(ty, opname, "slice", concrete=xy))
            else:
                hs.append(h(ty, opname, "slice"))
                if tier != "quick":
                    hs.append(h(ty, opname, "slice", mid=True))
                    for src in ("vec", "range", "iterv", "deque"):
                        hs.append(h(ty, opname, src))
    return hs
