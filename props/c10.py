"""C10 short-circuit terminals stop consuming input once a match is known."""
from props.common import *

META = {
    "functions": ["orx_parallel::core::{map_fil_find, filtermap_fil_find, flatmap_fil_find}::{task, seq_*}",
                  "orx_parallel::core::runner::Runner::reduce (spawn loop stops on HasMore::No)",
                  "orx_concurrent_iter::*::skip_to_end (as the model's cut)", "ConIterOfIter over an endless iterator"],
    "bounds": {"quick": {"n": 4, "threads": 2, "chunk": "Exact(1), Exact(2)", "endless source": "match position symbolic in 0..=3",
                         "schedule": "symbolic owner table, spawner observations, cut"},
               "thorough": {"n": "4..5", "threads": "2..3", "chunk": "Exact(1..3)"}},
    "outside": ["real-time fairness; the 'later pulls fail after skip_to_end' half is the trusted contract of the dependency",
                "endless sources only under the first-worker-drains-all schedule"],
    "assumptions": COMMON_ASSUMPTIONS,
}

# (b) parallel: whenever some predicate evaluation returned true, early exit was published by the finder before it
# returned, the finder pulled nothing afterwards, and (by the model's cut rule) no worker holds a position >= cut
EARLY = ('    assert!(!model::any_matched() || model::any_skipped(), "a match was found but early exit was never published");\n'
         '    assert!(!model::pull_after_match(), "a worker kept pulling after its own match");\n'
         '    assert!(!model::pull_after_skip(), "a worker pulled again after publishing early exit");\n'
         '    kani::cover!(model::any_matched() && model::cut() < {n});\n')


def par_h(term, ty, n, t, c, src="slice"):
    post = EARLY.format(n=n)
    if term == "first":
        # no predicate, hence no "matched" observation: the witness is that early exit cut the source short
        post = post.replace("kani::cover!(model::any_matched() && model::cut() < ", "kani::cover!(model::cut() < ")
    return scalar_harness("c10", term, ty, src, n, t, c, extra_post=post, tag="exit")


def seq_h(term, ty, n):
    """(a) sequential mode: no stage closure is called for any position after the first match"""
    p = Pipeline("slice", chain_for(ty), count_calls=True)
    k = p.final_kind()
    body = input_decl(n, tagged=True)
    body += "    model::begin_unscheduled(2);\n"
    from gen.dsl import fderef, KT
    v = fderef(k)
    pr = f"move |x: &{KT[k]}| {{ bump(4, {v}); {v} & 16 == 0 }}"
    call = {"find": f".find({pr}).is_some()", "any": f".any({pr})", "all": f".all(move |x: &{KT[k]}| {{ bump(4, {v}); {v} & 16 != 0 }})",
            "first": ".first().is_some()"}[term]
    body += f"    let r = {p.par('.num_threads(1)')}{call};\n"
    # position of the first match (tags are positions)
    single = {"find": f"{p.seq_single('i')}.any(|x| {val_of(k, 'x')} & 16 == 0)", "any": f"{p.seq_single('i')}.any(|x| {val_of(k, 'x')} & 16 == 0)",
              "all": f"{p.seq_single('i')}.any(|x| {val_of(k, 'x')} & 16 == 0)", "first": f"{p.seq_single('i')}.next().is_some()"}[term]
    body += "    ORACLE.store(true, AO::Relaxed);\n"
    body += f"    let mut m = {n};\n    let mut i = {n};\n    while i > 0 {{ i -= 1; if {single} {{ m = i; }} }}\n"
    body += f"    let mut j = 0;\n    while j < {n} {{ if j > m {{ let mut s = 0; while s < 5 {{ assert!(calls(s, j) == 0, \"a closure ran on an element after the first match in sequential mode\"); s += 1; }} }} j += 1; }}\n"
    body += f"    kani::cover!(m + 1 < {n});\n    assert!(model::scopes() == 0);\n"
    name = cfg_name("c10_seq", term, ty, f"n{n}")
    return H(name, body, {"terminal": term, "type": ty, "n": n, "threads": 1, "schedule": "sequential mode"},
             unwind=max(n + 2, 7), weight=n * 2)


def drain_h(term, ty, src, n, c):
    """iterator-backed source (unknown or known length), first-worker-drains-all schedule: the finder is alone until it
    returns, so once it has published early exit nobody may evaluate anything beyond the chunk that holds the first match"""
    p = Pipeline(src, chain_for(ty), count_calls=True)
    k = p.final_kind()
    from gen.dsl import fderef, KT
    v = fderef(k)
    body = unsched_prelude(n, 2, tagged=True, src=src)
    pr = f"move |x: &{KT[k]}| {{ bump(4, {v}); {v} & 16 == 0 }}"
    call = {"find": f".find({pr}).is_some()", "any": f".any({pr})", "first": ".first().is_some()"}[term]
    body += f"    let r = {p.par(params_str(2, c))}{call};\n"
    single = {"find": f"{p.seq_single('i')}.any(|x| {val_of(k, 'x')} & 16 == 0)", "any": f"{p.seq_single('i')}.any(|x| {val_of(k, 'x')} & 16 == 0)",
              "first": f"{p.seq_single('i')}.next().is_some()"}[term]
    body += "    ORACLE.store(true, AO::Relaxed);\n"
    body += f"    let mut m = {n};\n    let mut i = {n};\n    while i > 0 {{ i -= 1; if {single} {{ m = i; }} }}\n"
    body += f"    let lim = (m / {c} + 1) * {c};\n"
    for j in range(n):
        for st in range(5):
            body += f'    assert!({j} < lim || calls({st}, {j}) == 0, "an element beyond the chunk holding the first match was evaluated although the finder ran alone");\n'
    body += f"    kani::cover!(m + {c} < {n});\n    kani::cover!(model::drainer() == 1);\n"
    name = cfg_name("c10_drain", term, ty, src, f"n{n}", f"c{c}")
    return H(name, body, {"terminal": term, "type": ty, "src": src, "n": n, "threads": 2, "chunk": f"Exact({c})",
                          "schedule": "first worker drains all (iterator-backed source)"}, unwind=n + 3, weight=8)


def endless_h(term, c):
    body = "    let m: u8 = kani::any();\n    kani::assume(m <= 3);\n    model::begin_unscheduled(2);\n"
    if term == "find":
        body += f"    let r = (0u8..).par().num_threads(2).chunk_size({c}).map(|x: u8| x ^ 1).find(move |x: &u8| *x == (m ^ 1));\n"
        body += '    assert!(r == Some(m ^ 1), "find on an endless source did not return the match");\n'
    elif term == "any":
        body += f"    let r = core::iter::repeat(7u8).par().num_threads(2).chunk_size({c}).any(move |x: &u8| *x == 7 && m <= 3);\n"
        body += '    assert!(r, "any on an endless source");\n'
    elif term == "first":
        body += f"    let r = (0u8..).par().num_threads(2).chunk_size({c}).filter(move |x: &u8| *x >= m).first();\n"
        body += '    assert!(r == Some(m), "first on an endless source");\n'
    body += "    kani::cover!(m == 3);\n"
    name = cfg_name("c10_endless", term, f"c{c}")
    return H(name, body, {"terminal": term, "src": "endless iterator", "n": 4, "threads": 2, "chunk": f"Exact({c})",
                          "schedule": "first worker drains all; termination shown by unwinding assertions"},
             unwind=8, weight=6)


def harnesses(tier, seed):
    hs = []
    if tier == "quick":
        for ty, term in (("MF", "find"), ("FMF", "find"), ("FLF", "find")):
            for c in (1, 2):
                hs.append(par_h(term, ty, 3 if (ty == "FLF" and c == 2) else 4, 2, c))
        hs += [par_h("find", "MF", 4, 2, 1, src="sched"), par_h("find", "FMF", 4, 2, 2, src="sched")]  # unknown length: HasMore::Maybe
        hs += [seq_h("find", "MF", 3), seq_h("any", "FMF", 3), seq_h("find", "FLF", 3)]
        hs += [endless_h("find", 1), endless_h("find", 2), endless_h("first", 1)]
        # all three find kernels x both chunk paths with the finder running alone (natively observable in every schedule)
        hs += [drain_h("find", "MF", "iterf", 4, 1), drain_h("find", "M", "iterf", 4, 2), drain_h("find", "FMF", "iterf", 4, 1),
               drain_h("find", "FMF", "iterf", 4, 2), drain_h("find", "FLF", "iterf", 3, 1),
               drain_h("any", "F", "iter", 4, 1)]
    else:
        for ty in ("E", "M", "F", "MF", "FM", "FMF", "FL", "FLF"):
            for term in ("find", "any", "all", "first"):
                for (n, t, c) in ((4, 2, 1), (4, 2, 2), (5, 3, 1), (5, 2, 2)):
                    if term != "find" and (n, t) != (4, 2):
                        continue
                    if ty in ("FL", "FLF") and (n, t, c) != (4, 2, 1):
                        n, t, c = (3, 2, 2) if c == 2 and n == 4 else (n, t, c)
                        if n == 5:
                            continue
                    hs.append(par_h(term, ty, n, t, c))
                hs.append(seq_h(term, ty, 4))
        for term in ("find", "any", "first"):
            for c in (1, 2, 3):
                hs.append(endless_h(term, c))
        for ty in ("E", "M", "F", "MF", "FM", "FMF", "FL", "FLF"):
            for src in ("iterf", "iter", "deque"):
                for c in (1, 2):
                    if ty in ("FL", "FLF") and (c == 2 and src != "iter"):
                        continue  # chunked pulls of a flat_map find from an iterator-backed source: ~10 min each
                    hs.append(drain_h("find", ty, src, 3 if ty in ("FL", "FLF") else 4, c))
            hs.append(drain_h("any", ty, "iterf", 4, 1))
            hs.append(drain_h("first", ty, "iterf", 4, 1))
    return hs
