"""C07 collect_x returns a permutation of the sequential result."""
from props.common import *
from props.c01 import INTERESTING3, FL_QUICK

META = {
    "functions": ["core::{map_fil_col_x, filtermap_fil_col_x, flatmap_fil_col_x}::{task, par_*_col_x_rec}", "Runner::run_map",
                  "Par::collect_x of the eight Par types (incl. the sequential branch SplitVec::from(collect()))",
                  "orx_split_vec::SplitVec<_, Recursive>::{append, len, index}"],
    "bounds": {"quick": {"n": "2 (all shapes), 3 with chunk 2 (selected)", "threads": "2 (and sequential mode)", "chunk": "Exact(1), Exact(2)",
                         "oracle": "for a symbolic probe value p: count(out, p) == count(sequential, p), and equal lengths; element values symbolic (duplicates allowed)"},
               "thorough": {"n": "3 (all shapes)", "threads": "2, 3"}},
    "outside": ["shapes are case-split (one query each), not symbolic", "n above the bound"],
    "assumptions": COMMON_ASSUMPTIONS,
}


def harnesses(tier, seed):
    hs = []
    if tier == "quick":
        for ty in ("MF", "FMF", "FLF"):
            cvs = count_vectors(ty, 2) if ty != "FLF" else [(1, 2), (2, 0), (0, 1), (1, 1)]
            # the flat_map kernel goes through std's FlatMap + Vec::from_iter, ~4 min per query: fewer shapes in quick
            ots = owner_tables(2, 2, 1) if ty != "FLF" else []   # flat_map col_x kernel in parallel: > 12 GB per query, thorough tier
            if ty == "FLF":
                cvs = [(1, 1), (2, 0)]
            for owners in ots:
                for k in cvs:
                    hs.append(collect_harness("c07", "collect_x", ty, "slice", 2, 2, 1, owners, k))
            for owners in (owner_tables(3, 2, 2) if ty != "FLF" else []):
                for k in (INTERESTING3[ty][:2] if ty != "FLF" else [(1, 0, 1)]):
                    hs.append(collect_harness("c07", "collect_x", ty, "slice", 3, 2, 2, owners, k))
            hs.append(collect_harness("c07", "collect_x", ty, "slice", 2, 1, 1, None, cvs[-1]))
            # fewer chunks than workers: one chunk of 2, held by the first or by the last worker
            for owners in ([0, 0], [1, 1]):
                if ty != "FLF":
                    hs.append(collect_harness("c07", "collect_x", ty, "slice", 2, 2, 2, owners, (1, 1)))
        for owners in owner_tables(2, 2, 1):
            hs.append(collect_harness("c07", "collect_x", "M", "slice", 2, 2, 1, owners, (1, 1)))
        for owners in ([0, 0], [1, 1]):
            hs.append(collect_harness("c07", "collect_x", "M", "slice", 2, 2, 2, owners, (1, 1)))
        # iterator-backed sources under the schedule model (incl. "first worker empty, second has everything")
        for ty in ("M", "MF"):
            for owners in owner_tables(2, 2, 1):
                hs.append(collect_harness("c07", "collect_x", ty, "sched", 2, 2, 1, owners, (1, 1)))
            hs.append(collect_harness("c07", "collect_x", ty, "schedx", 3, 2, 1, [1, 0, 1], (1, 1, 1)))
        # three workers, two chunks: the last-spawned worker holds one of them
        hs.append(collect_harness("c07", "collect_x", "MF", "slice", 3, 3, 2, [2, 2, 0], (1, 1, 1), obs=1))
        hs.append(collect_harness("c07", "collect_x", "MF", "slice", 3, 3, 2, [0, 0, 2], (1, 0, 1), obs=1))
    else:
        light, heavy = [], []
        for ty in ("M", "F", "MF", "FM", "FMF", "FL", "FLF"):
            bucket = heavy if ty in ("FL", "FLF") else light
            for (n, t, c) in ((3, 2, 1), (3, 2, 2), (3, 3, 1), (2, 2, 2), (3, 3, 2)):
                cvs = count_vectors(ty, n)
                if ty == "FLF" and n > 2:
                    # flat_map + filter col_x kernel at n = 3: 9-15 min, some exhaust 28 GB; FL at n = 3 and FLF at n = 2 stay
                    continue
                for owners in owner_tables(n, t, c):
                    for k in cvs:
                        bucket.append(collect_harness("c07", "collect_x", ty, "slice", n, t, c, owners, k))
            for k in count_vectors(ty, 2):
                bucket.append(collect_harness("c07", "collect_x", ty, "slice", 2, 1, 1, None, k))
                for owners in owner_tables(2, 2, 1):
                    for src in ("vec", "sched", "schedx"):
                        bucket.append(collect_harness("c07", "collect_x", ty, src, 2, 2, 1, owners, k))
        hs = cap(light, 300, seed) + cap(heavy, 20, seed)
    return hs
