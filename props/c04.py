"""C04 count / for_each visit every surviving element exactly once."""
from props.common import *

META = {
    "functions": ["orx_parallel::core::map_fil_cnt::{map_fil_cnt, par_map_fil_cnt, task, seq_map_fil_cnt}",
                  "orx_parallel::core::filtermap_fil_cnt::*", "orx_parallel::core::flatmap_fil_cnt::*",
                  "orx_parallel::core::runner::Runner::{new, reduce, do_spawn, next_chunk_size}",
                  "orx_parallel::Par::{count, for_each} on all eight Par types",
                  "orx_concurrent_iter::{ConIterOfSlice, ConIterOfVec, ConIterOfRange, ConIterOfIter(X)}::{next, next_chunk_x, values, buffered}"],
    "bounds": {"quick": {"n": 4, "threads": 2, "chunk": "Exact(1), Exact(2)", "element": "u8, fully symbolic",
                         "schedule": "symbolic owner table + symbolic spawner observations"},
               "thorough": {"n": "3..5", "threads": "2..3", "chunk": "Exact(1..3), Auto, Min(2)", "element": "u8"}},
    "outside": ["n above the bound", "iterator-backed sources only under the first-worker-drains-all schedule"],
    "assumptions": COMMON_ASSUMPTIONS,
}


def count_harness(ty, src, n, t, c, chunk_expr=None):
    p = Pipeline(src, chain_for(ty))
    params = params_str(t, chunk_expr if chunk_expr else c)
    body = sched_prelude(n, t, src=src)
    body += f"    let r = {p.par(params)}.count();\n"
    body += f"    let e = {p.seq()}.count();\n"
    body += '    assert!(r == e, "count differs from the sequential count");\n'
    body += sched_covers(n, t)
    name = cfg_name("c04_count", ty, src, f"n{n}", f"t{t}", f"c{c}")
    return H(name, body, {"terminal": "count", "type": ty, "kernel": KERNEL_OF_TYPE[ty] + "_cnt", "src": src, "n": n,
                          "threads": t, "chunk": chunk_expr or f"Exact({c})", "schedule": "symbolic"},
             unwind=(23 if (chunk_expr and "Auto" in chunk_expr) else n + 2), weight=n * t * (2 if c == 1 else 3))


def foreach_harness(ty, src, n, t, c):
    p = Pipeline(src, chain_for(ty))
    k = p.final_kind()
    body = sched_prelude(n, t, tagged=True, src=src)
    v = val_of(k, "x")
    body += f"    {p.par(params_str(t, c))}.for_each(move |x| bump(4, {v}));\n"
    body += "    ORACLE.store(true, AO::Relaxed);\n"
    body += f"    {p.seq()}.for_each(move |x| bump(4, {v}));\n"
    body += f"    let mut i = 0;\n    while i < {n} {{ assert!(calls(4, i) == exp(4, i), \"for_each call multiset differs\"); i += 1; }}\n"
    body += sched_covers(n, t)
    body += "    kani::cover!(exp(4, 1) >= 1);\n"
    name = cfg_name("c04_foreach", ty, src, f"n{n}", f"t{t}", f"c{c}")
    return H(name, body, {"terminal": "for_each", "type": ty, "src": src, "n": n, "threads": t, "chunk": f"Exact({c})",
                          "schedule": "symbolic"}, unwind=n + 2, weight=n * t * 3)


def unsched_count(ty, src, n, t, c):
    p = Pipeline(src, chain_for(ty))
    body = unsched_prelude(n, t, src=src)
    body += f"    let r = {p.par(params_str(t, c))}.count();\n"
    body += f"    let e = {p.seq()}.count();\n"
    wit = "e == 1" if ty not in ("E", "M") else f"e == {n}"   # E / M keep every element
    body += f'    assert!(r == e, "count differs from the sequential count");\n    kani::cover!({wit});\n    kani::cover!(model::drainer() == 1);\n'
    name = cfg_name("c04_count_drain", ty, src, f"n{n}", f"t{t}", f"c{c}")
    return H(name, body, {"terminal": "count", "type": ty, "src": src, "n": n, "threads": t, "chunk": f"Exact({c})",
                          "schedule": "one worker (symbolic spawn index) drains the iterator-backed source, the others find it exhausted"}, unwind=n + 2, weight=n * 2)


def harnesses(tier, seed):
    hs = []
    if tier == "quick":
        for ty in ("MF", "FMF", "FLF"):
            for c in (1, 2):
                hs.append(count_harness(ty, "slice", 3 if (ty == "FLF" and c == 2) else 4, 2, c))
        for ty in ("MF", "FMF", "FLF"):
            hs.append(count_harness(ty, "slice", 5, 2, 2))  # 3 chunks for 2 workers: early-stopping workers lose the tail
        hs.append(count_harness("MF", "sched", 4, 2, 1))    # iterator-backed sources under the schedule model
        hs.append(count_harness("FMF", "sched", 4, 2, 2))
        hs.append(count_harness("FLF", "schedx", 3, 2, 1))
        hs.append(foreach_harness("M", "slice", 3, 2, 1))
        hs.append(foreach_harness("FMF", "slice", 3, 2, 2))
        hs.append(foreach_harness("FL", "slice", 3, 2, 1))
        hs.append(unsched_count("MF", "iterf", 3, 2, 1))
    else:
        heavy_ty = ("FL", "FLF")
        for ty in ("E", "M", "F", "MF", "FM", "FMF", "FL", "FLF"):
            cfgs = [(4, 2, 1), (4, 2, 2), (5, 3, 1), (5, 2, 2)] if ty not in heavy_ty else [(4, 2, 1), (3, 2, 2), (5, 2, 2)]
            for (n, t, c) in cfgs:
                hs.append(count_harness(ty, "slice", n, t, c))
            for src in ("vec", "range", "sched", "schedx"):
                hs.append(count_harness(ty, src, 4 if ty not in heavy_ty else 3, 2, 1))
            if ty not in heavy_ty:
                hs.append(count_harness(ty, "slice", 4, 2, "min2", "ChunkSize::Min(NonZeroUsize::new(2).unwrap())"))
            if ty != "FLF":  # FLF.for_each = FLF.map(f).count(): map after a filtered flat_map is an eager
                # site (C16 finding) whose inner collect has symbolic lengths - beyond reach symbolically
                for c in (1, 2):
                    hs.append(foreach_harness(ty, "slice", 4 if ty not in heavy_ty else 3, 2, c))
            for src in ("iter", "iterf", "deque"):
                for c in (1, 2):
                    hs.append(unsched_count(ty, src, 3, 2, c))
    return hs
