"""C02 find/first/any/all answer with the first match in source order."""
from props.common import *

META = {
    "functions": ["orx_parallel::core::{map_fil_find, filtermap_fil_find, flatmap_fil_find}::* (par, task, seq)",
                  "orx_parallel::core::utils::maybe_reduce", "orx_parallel::core::runner::Runner::{new, reduce}",
                  "Par::{find, first, any, all}, inherent find_with_index / first_with_index of the concrete Par types",
                  "orx_concurrent_iter::ConIterOf{Slice,Vec,Range}::{next_id_and_value, ids_and_values, buffered_iter, skip_to_end}"],
    "bounds": {"quick": {"n": 4, "threads": 2, "chunk": "Exact(1), Exact(2)", "element": "u8 symbolic (0, 1 or many matches anywhere)",
                         "schedule": "symbolic owner table, spawner observations and early-exit cut"},
               "thorough": {"n": "4..5", "threads": "2..3", "chunk": "Exact(1..3), Auto, Min(2)"}},
    "outside": ["n above the bound", "iterator-backed sources only under the first-worker-drains-all schedule"],
    "assumptions": COMMON_ASSUMPTIONS,
}

FIND_COVERS = ("    kani::cover!(model::cut() != usize::MAX && model::cut() < {n});\n"
               "    kani::cover!(model::claimed_by(0) == {last} && model::cut() != usize::MAX);\n")


def h(term, ty, src, n, t, c, chunk_expr=None, tag=""):
    return scalar_harness("c02", term, ty, src, n, t, c, chunk_expr=chunk_expr, tag=tag,
                          extra_post=FIND_COVERS.format(n=n, last=t - 1))


def harnesses(tier, seed):
    hs = []
    if tier == "quick":
        for ty, term in (("MF", "find_with_index"), ("FMF", "find"), ("FLF", "find")):
            for c in (1, 2):
                hs.append(h(term, ty, "slice", 3 if (ty == "FLF" and c == 2) else 4, 2, c))
        hs.append(h("find", "MF", "sched", 4, 2, 1))     # iterator-backed source of unknown length, full schedule model
        hs.append(h("find", "FMF", "schedx", 4, 2, 2))
        hs.append(h("first", "F", "slice", 4, 2, 1))
        hs.append(h("any", "M", "slice", 4, 2, 2))
        hs.append(h("all", "FM", "slice", 4, 2, 1))
    else:
        wi = {"E", "M", "F", "MF"}  # the FMF type is only reachable as an opaque `impl Par`
        for ty in ("E", "M", "F", "MF", "FM", "FMF", "FL", "FLF"):
            terms = ["find", "first", "any", "all"] + (["find_with_index", "first_with_index"] if ty in wi else [])
            for term in terms:
                for (n, t, c) in ((4, 2, 1), (4, 2, 2), (5, 3, 1), (5, 3, 2), (4, 2, 3)):
                    if term in ("any", "all", "first", "first_with_index") and (n, t, c) not in ((4, 2, 1), (4, 2, 2)):
                        continue
                    hs.append(h(term, ty, "slice", n, t, c))
            for src in ("vec", "range", "sched", "schedx"):
                for c in (1, 2):
                    hs.append(h("find", ty, src, 4, 2, c))
            hs.append(h("find", ty, "slice", 4, 2, "auto", "ChunkSize::Auto"))
            hs.append(h("find", ty, "slice", 4, 2, "min2", "ChunkSize::Min(NonZeroUsize::new(2).unwrap())"))
    return hs
