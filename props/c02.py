"""C02 find/first/any/all answer with the first match in source order."""
from props.common import *

META = {
    "functions": ["orx_parallel::core::{map_fil_find, filtermap_fil_find, flatmap_fil_find}::* (par, task, seq)",
                  "orx_parallel::core::utils::maybe_reduce", "orx_parallel::core::runner::Runner::{new, reduce}",
                  "Par::{find, first, any, all}, inherent find_with_index / first_with_index of the concrete Par types",
                  "orx_concurrent_iter::ConIterOf{Slice,Vec,Range}::{next_id_and_value, ids_and_values, buffered_iter, skip_to_end}"],
    "bounds": {"quick": {"n": 4, "threads": 2, "chunk": "Exact(1), Exact(2)", "element": "u8 symbolic (0, 1 or many matches anywhere)",
                         "schedule": "symbolic owner table, spawner observations and early-exit cut"},
               "thorough": {"n": "4..5", "threads": "2..3", "chunk": "Exact(1..3), Auto, Min(2)"}},
    "outside": ["n above the bound", "iterator-backed sources only under the first-worker-drains-all schedule"],
    "assumptions": COMMON_ASSUMPTIONS,
}

FIND_COVERS = ("    kani::cover!(model::cut() != usize::MAX && model::cut() < {n});\n"
               "    kani::cover!(model::claimed_by(0) == {last} && model::cut() != usize::MAX);\n")


def h(term, ty, src, n, t, c, chunk_expr=None, tag=""):
    return scalar_harness("c02", term, ty, src, n, t, c, chunk_expr=chunk_expr, tag=tag,
                          extra_post=FIND_COVERS.format(n=n, last=t - 1))


def bigchunk(n=1032, c=1030, m0=1026):
    # NOT part of any tier: tried for the seeded change C02-a (poll period 1024); with the per-position arrays of the
    # schedule model the symbolic executor needs > 28 GB / 30 min at n = 1032.  Kept for reference.
    """One concrete run far outside the small bounds: a chunk of more than 1024 elements whose first match lies deep inside
    it, held by the LAST worker, while the first worker holds the short second chunk with a later match.  Everything is
    concrete (symbolic execution degenerates to interpretation); it exists because chunk-size-dependent behaviour (e.g. a
    periodic poll of a shared flag) is invisible at n <= 5."""
    body = f"    let mut a = [0u8; {n}];\n    a[{m0}] = 16;\n    a[{c}] = 16;\n"
    body += f"    let mut tab = [1u8; model::MAXN];\n    let mut i = {c};\n    while i < {n} {{ tab[i] = 0; i += 1; }}\n"
    body += f"    model::begin({n}, 2, Some(tab), 1);\n"
    body += "    #[cfg(not(kani))]\n    model::set_base(a.as_ptr() as usize);\n"
    body += (f"    let r = (&a[..]).into_par().num_threads(2).chunk_size({c}).map(move |x: &u8| {{ probe_ref!(x); *x }})"
             f".find_with_index(move |x: &u8| {{ let r = *x == 16; if r {{ model::matched(); }} r }});\n")
    body += f'    assert!(r == Some(({m0}, 16u8)), "find does not return the first match in source order (large chunk)");\n'
    body += "    kani::cover!(true);\n"
    return H("c02_bigchunk_find_with_index_M", body, {"terminal": "find_with_index", "type": "M", "src": "slice", "n": n, "threads": 2,
                                                      "chunk": f"Exact({c})", "schedule": {"owners": "first chunk -> worker 1, second chunk -> worker 0"},
                                                      "values": "concrete"}, unwind=n + 2, weight=100, timeout=(900, 2400), mem_gb=(16, 28))


def harnesses(tier, seed):
    hs = []
    if tier == "quick":
        for ty, term in (("MF", "find_with_index"), ("FMF", "find"), ("FLF", "find")):
            for c in (1, 2):
                hs.append(h(term, ty, "slice", 3 if (ty == "FLF" and c == 2) else 4, 2, c))
        hs.append(h("find", "MF", "sched", 4, 2, 1))     # iterator-backed source of unknown length, full schedule model
        hs.append(h("find", "FMF", "schedx", 4, 2, 2))
        hs.append(h("first", "F", "slice", 4, 2, 1))
        hs.append(h("any", "M", "slice", 4, 2, 2))
        hs.append(h("all", "FM", "slice", 4, 2, 1))
    else:
        wi = {"E", "M", "F", "MF"}  # the FMF type is only reachable as an opaque `impl Par`
        heavy_ty = ("FL", "FLF")
        for ty in ("E", "M", "F", "MF", "FM", "FMF", "FL", "FLF"):
            terms = ["find", "first", "any", "all"] + (["find_with_index", "first_with_index"] if ty in wi else [])
            for term in terms:
                cfgs = [(4, 2, 1), (4, 2, 2)] if ty not in heavy_ty else [(4, 2, 1), (3, 2, 2)]
                if term == "find" and ty not in heavy_ty:
                    cfgs += [(5, 3, 1), (5, 2, 3)]
                for (n, t, c) in cfgs:
                    hs.append(h(term, ty, "slice", n, t, c))
            for src in ("vec", "range", "sched", "schedx"):
                hs.append(h("find", ty, src, 4 if ty not in heavy_ty else 3, 2, 1))
            if ty not in heavy_ty:
                hs.append(h("find", ty, "slice", 4, 2, "min2", "ChunkSize::Min(NonZeroUsize::new(2).unwrap())"))
    return hs
