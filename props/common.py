"""Shared building blocks for the per-property harness generators."""
from gen.dsl import Pipeline, M, F, FM, FL, TYPE_CHAINS, params_str, val_of, par_type
from gen.harness import H, STUB_LIST, SCHED_STUBS

KERNEL_OF_TYPE = {"E": "map_fil", "M": "map_fil", "F": "map_fil", "MF": "map_fil",
                  "FM": "filtermap_fil", "FMF": "filtermap_fil", "FL": "flatmap_fil", "FLF": "flatmap_fil"}

COMMON_ASSUMPTIONS = [
    "trusted contract of orx-concurrent-iter: the position counter is linearisable (every pull obtains a distinct, "
    "contiguous position range; positions are handed out in increasing order) and after skip_to_end every pull fails",
    "sequentialisation: each worker runs to completion at its spawn point; the interleaving is re-introduced as a symbolic "
    "(or exhaustively case-split) assignment of positions to workers + symbolic spawner observations + symbolic cut, "
    "see DESIGN.md section 1 for the completeness / soundness argument",
    "no weak-memory effects, no real OS threads inside the solver query (counterexamples are replayed on real threads)",
    "std::thread::available_parallelism() = Ok(T) with T the harness' thread count; its Err branch is outside the claim",
] + ["stub: " + s for s in STUB_LIST]


def input_decl(n, tagged=False):
    if tagged:
        return f"    let a: [u8; {n}] = tagged(kani::any::<[u8; {n}]>());\n"
    return f"    let a: [u8; {n}] = kani::any();\n"


def owners_literal(owners):
    if owners is None:
        return "None"
    return "Some(model::owners_from(&[" + ", ".join(str(x) for x in owners) + "]))"


def sched_prelude(n, t, owners=None, obs=0, tagged=False, src="slice"):
    s = input_decl(n, tagged)
    s += f"    model::begin({n}, {t}, {owners_literal(owners)}, {obs});\n"
    s += "    #[cfg(not(kani))]\n    model::set_base(a.as_ptr() as usize);\n"
    if src == "deque":
        s += "    let dq: VecDeque<u8> = a.iter().copied().collect();\n"
    return s


def unsched_prelude(n, t, tagged=False, src="slice"):
    s = input_decl(n, tagged)
    s += f"    model::begin_unscheduled({t});\n"
    s += "    #[cfg(not(kani))]\n    model::set_base(a.as_ptr() as usize);\n"
    if src == "deque":
        s += "    let dq: VecDeque<u8> = a.iter().copied().collect();\n"
    return s


def sched_covers(n, t):
    """reachability witnesses: the late worker holds the first position / one worker takes all"""
    if t < 2 or n < 2:
        return "    kani::cover!(true);\n"
    allzero = " && ".join(f"model::claimed_by({i}) == 0" for i in range(n))
    return (f"    kani::cover!(model::claimed_by(0) == {t - 1});\n"
            f"    kani::cover!({allzero});\n")


def cfg_name(*parts):
    return "_".join(str(p) for p in parts if p is not None and p != "")


def chain_for(ty):
    return list(TYPE_CHAINS[ty])
