"""Shared building blocks for the per-property harness generators."""
from gen.dsl import Pipeline, TaggedPipeline, M, F, FM, FL, TYPE_CHAINS, params_str, val_of, par_type
from gen.harness import H, STUB_LIST, SCHED_STUBS

KERNEL_OF_TYPE = {"E": "map_fil", "M": "map_fil", "F": "map_fil", "MF": "map_fil",
                  "FM": "filtermap_fil", "FMF": "filtermap_fil", "FL": "flatmap_fil", "FLF": "flatmap_fil"}

COMMON_ASSUMPTIONS = [
    "trusted contract of orx-concurrent-iter: the position counter is linearisable (every pull obtains a distinct, "
    "contiguous position range; positions are handed out in increasing order) and after skip_to_end every pull fails",
    "sequentialisation: each worker runs to completion at its spawn point; the interleaving is re-introduced as a symbolic "
    "(or exhaustively case-split) assignment of positions to workers + symbolic spawner observations + symbolic cut, "
    "see DESIGN.md section 1 for the completeness / soundness argument",
    "no weak-memory effects, no real OS threads inside the solver query (counterexamples are replayed on real threads)",
    "std::thread::available_parallelism() = Ok(T) with T the harness' thread count; its Err branch is outside the claim",
] + ["stub: " + s for s in STUB_LIST]


def input_decl(n, tagged=False):
    if tagged:
        return f"    let a: [u8; {n}] = tagged(kani::any::<[u8; {n}]>());\n"
    return f"    let a: [u8; {n}] = kani::any();\n"


def owners_literal(owners):
    if owners is None:
        return "None"
    return "Some(model::owners_from(&[" + ", ".join(str(x) for x in owners) + "]))"


def sched_prelude(n, t, owners=None, obs=0, tagged=False, src="slice"):
    s = input_decl(n, tagged)
    s += f"    model::begin({n}, {t}, {owners_literal(owners)}, {obs});\n"
    s += "    #[cfg(not(kani))]\n    model::set_base(a.as_ptr() as usize);\n"
    if src == "deque":
        s += "    let dq: VecDeque<u8> = a.iter().copied().collect();\n"
    return s


def unsched_prelude(n, t, tagged=False, src="slice"):
    s = input_decl(n, tagged)
    s += f"    model::begin_unscheduled({t});\n"
    s += "    #[cfg(not(kani))]\n    model::set_base(a.as_ptr() as usize);\n"
    if src == "deque":
        s += "    let dq: VecDeque<u8> = a.iter().copied().collect();\n"
    return s


def sched_covers(n, t):
    """reachability witnesses: the late worker holds the first position / one worker takes all"""
    if t < 2 or n < 2:
        return "    kani::cover!(true);\n"
    allzero = " && ".join(f"model::claimed_by({i}) == 0" for i in range(n))
    return (f"    kani::cover!(model::claimed_by(0) == {t - 1});\n"
            f"    kani::cover!({allzero});\n")


def cfg_name(*parts):
    return "_".join(str(p) for p in parts if p is not None and p != "")


def chain_for(ty):
    return list(TYPE_CHAINS[ty])


# ---------------------------------------------------------------- terminals on u8-valued pipelines
PRED = "move |x: &{T}| {{ let r = {V} & 16 == 0; if r {{ model::matched(); }} r }}"
PRED_SEQ = "move |x: &{T}| {V} & 16 == 0"


PROBE_IN_PRED = {"ref": "probe_ref!(*x); ", "idx": "probe_idx!(*x); ", "val": "probe_val!(); "}


def pred_(kind, seq=False, probe=False):
    """probe=True: the pipeline has no transformation, so the predicate is the first closure that sees an element
    and carries the native-replay gate"""
    from gen.dsl import KT, fderef
    t = KT[kind]
    v = fderef(kind)
    s = (PRED_SEQ if seq else PRED).format(T=t, V=v)
    if probe and not seq:
        s = s.replace("{ let r =", "{ " + PROBE_IN_PRED[kind] + "let r =", 1)
    return s


def item_val(kind, x):
    """u8 value of item x (by value) of the given kind"""
    return val_of(kind, x)


def terminal_code(p, params, term, n):
    """-> Rust statements computing the parallel result, the oracle and asserting agreement.
    p: Pipeline; params: string appended after the source; term: terminal name."""
    k = p.final_kind()
    par = p.par(params)
    seq = p.seq()
    T = {"ref": "&u8", "val": "u8", "idx": "usize"}[k]
    v = lambda x: item_val(k, x)
    pred = lambda kind, seq=False: pred_(kind, seq, probe=(not p.ops))
    s = ""
    if term == "count":
        s += f"    let r = {par}.count();\n    ORACLE.store(true, AO::Relaxed);\n    let e = {seq}.count();\n"
        s += '    assert!(r == e, "count differs from the sequential count");\n'
    elif term in ("reduce_xor", "reduce_add", "reduce_min", "reduce_max"):
        assert k == "val"
        op = {"reduce_xor": "a ^ b", "reduce_add": "a.wrapping_add(b)", "reduce_min": "if a <= b { a } else { b }",
              "reduce_max": "if a >= b { a } else { b }"}[term]
        s += f"    let r = {par}.reduce(|a: u8, b: u8| {op});\n    ORACLE.store(true, AO::Relaxed);\n    let e = {seq}.reduce(|a: u8, b: u8| {op});\n"
        s += '    assert!(r == e, "reduce differs from the sequential fold");\n'
        if any(o.kind in ("filter", "filter_map", "flat_map") for o in p.ops):
            s += "    kani::cover!(e.is_none());\n"
        s += "    kani::cover!(e.is_some());\n"
    elif term == "reduce_ref_min":
        assert k == "ref"
        s += f"    let r = {par}.reduce(|a: &u8, b: &u8| if *a <= *b {{ a }} else {{ b }}).copied();\n"
        s += f"    ORACLE.store(true, AO::Relaxed);\n    let e = {seq}.reduce(|a: &u8, b: &u8| if *a <= *b {{ a }} else {{ b }}).copied();\n"
        s += '    assert!(r == e, "reduce differs from the sequential fold");\n'
    elif term in ("min", "max"):
        assert k in ("val", "ref")
        s += f"    let r = {par}.{term}();\n    ORACLE.store(true, AO::Relaxed);\n    let e = {seq}.{term}();\n"
        s += f'    assert!(r == e, "{term} differs");\n'
    elif term == "sum":
        conv = f"move |x: {T}| {v('x')} as u16"
        s += f"    let r: u16 = {par}.map({conv}).sum();\n    ORACLE.store(true, AO::Relaxed);\n    let e: u16 = {seq}.map({conv}).sum();\n"
        s += '    assert!(r == e, "sum differs");\n'
    elif term == "fold":
        assert k == "val"
        s += f"    let r = {par}.fold(|| 0u8, |a: u8, b: u8| a ^ b);\n    ORACLE.store(true, AO::Relaxed);\n    let e = {seq}.fold(0u8, |a: u8, b: u8| a ^ b);\n"
        s += '    assert!(r == e, "fold differs");\n'
    elif term in ("min_by_key", "max_by_key"):
        assert k == "val"
        s += f"    let r = {par}.{term}(|x: &u8| *x >> 4);\n"
        s += f"    ORACLE.store(true, AO::Relaxed);\n    let ek = {seq}.map(|x: u8| x >> 4).{term[:3]}();\n"
        s += f'    assert!(r.map(|x| x >> 4) == ek, "{term}: key is not extremal / None mismatch");\n'
        s += f'    if let Some(x) = r {{ assert!({seq}.any(|y: u8| y == x), "{term}: result is not a surviving element"); }}\n'
    elif term in ("min_by", "max_by"):
        assert k == "val"
        s += f"    let r = {par}.{term}(|x: &u8, y: &u8| (*x >> 4).cmp(&(*y >> 4)));\n"
        s += f"    ORACLE.store(true, AO::Relaxed);\n    let ek = {seq}.map(|x: u8| x >> 4).{term[:3]}();\n"
        s += f'    assert!(r.map(|x| x >> 4) == ek, "{term}: key is not extremal / None mismatch");\n'
        s += f'    if let Some(x) = r {{ assert!({seq}.any(|y: u8| y == x), "{term}: result is not a surviving element"); }}\n'
    elif term == "find":
        s += f"    let r = {par}.find({pred(k)});\n    ORACLE.store(true, AO::Relaxed);\n    let e = {seq}.find({pred(k, True)});\n"
        s += cmp_opt(k, "find does not return the first match in source order")
    elif term == "first":
        s += f"    let r = {par}.first();\n    ORACLE.store(true, AO::Relaxed);\n    let e = {seq}.next();\n"
        code = cmp_opt(k, "first does not return the first element in source order")
        if not any(o.kind in ("filter", "filter_map", "flat_map") for o in p.ops):
            code = code.replace("    kani::cover!(e.is_none());\n", "")  # nothing can remove the first element
        s += code
    elif term == "any":
        s += f"    let pf = {pred(k, True)};\n    let r = {par}.any({pred(k)});\n    ORACLE.store(true, AO::Relaxed);\n    let e = {seq}.any(|x| pf(&x));\n"
        s += '    assert!(r == e, "any differs");\n    kani::cover!(e);\n    kani::cover!(!e);\n'
    elif term == "all":
        # for `all` the early-exit trigger is a predicate evaluation that returns false
        pall = pred(k).replace("if r { model::matched(); }", "if !r { model::matched(); }")
        s += f"    let pf = {pred(k, True)};\n    let r = {par}.all({pall});\n    ORACLE.store(true, AO::Relaxed);\n    let e = {seq}.all(|x| pf(&x));\n"
        s += '    assert!(r == e, "all differs");\n    kani::cover!(e);\n    kani::cover!(!e);\n'
    elif term in ("find_with_index", "first_with_index"):
        if term == "find_with_index":
            s += f"    let r = {par}.find_with_index({pred(k)});\n"
            single = f"{p.seq_single('i')}.find({pred(k, True)}).is_some()"
            val_of_single = f"{p.seq_single('i')}.find({pred(k, True)})"
        else:
            s += f"    let r = {par}.first_with_index();\n"
            single = f"{p.seq_single('i')}.next().is_some()"
            val_of_single = f"{p.seq_single('i')}.next()"
        s += f"    ORACLE.store(true, AO::Relaxed);\n    let mut e = None;\n    let mut i = 0;\n    while i < {n} {{ if e.is_none() && {single} {{ e = Some((i, {val_of_single}.unwrap())); }} i += 1; }}\n"
        if k == "ref":
            s += '    assert!(r.map(|x| (x.0, *x.1)) == e.map(|x| (x.0, *x.1)), "index/value is not that of the first match in the source");\n'
        else:
            s += '    assert!(r == e, "index/value is not that of the first match in the source");\n'
        if term == "find_with_index" or any(o.kind in ("filter", "filter_map", "flat_map") for o in p.ops):
            s += "    kani::cover!(e.is_none());\n    kani::cover!(matches!(e, Some((i, _)) if i > 0));\n"
    elif term in ("reduce_nc", "reduce_sub"):
        assert k == "val"
        op = {"reduce_nc": "a.wrapping_mul(31) ^ b", "reduce_sub": "a.wrapping_sub(b)"}[term]
        s += f"    let r = {par}.reduce(|a: u8, b: u8| {op});\n    ORACLE.store(true, AO::Relaxed);\n    let e = {seq}.reduce(|a: u8, b: u8| {op});\n"
        s += '    assert!(r == e, "reduce is not the left-to-right fold");\n'
    elif term == "fold_nc":
        assert k == "val"
        s += f"    let r = {par}.fold(|| 1u8, |a: u8, b: u8| a.wrapping_mul(31) ^ b);\n"
        s += f"    ORACLE.store(true, AO::Relaxed);\n    let e = {seq}.reduce(|a: u8, b: u8| a.wrapping_mul(31) ^ b).unwrap_or(1u8);\n"
        s += '    assert!(r == e, "fold is not the left-to-right fold");\n'
    elif term in ("collect_vec", "collect"):
        s += f"    let out = {par}.{term}();\n"
        s += seq_eq_loop(seq, k, "out", 0)
    elif term == "collect_x":
        s += f"    let out = {par}.collect_x();\n"
        s += multiset_eq(seq, k, "out", n)
    else:
        raise ValueError(term)
    return s


def seq_eq_loop(seq, k, out, offset, msg="collected sequence differs from the sequential one"):
    """assert out[offset..] == seq, element by element (no slice compare: that is a memcmp loop)"""
    vo = {"ref": f"*{out}[j]", "val": f"{out}[j]", "idx": f"{out}[j]"}[k]
    vx = {"ref": "*x", "val": "x", "idx": "x"}[k]
    s = f"    ORACLE.store(true, AO::Relaxed);\n    let mut j = {offset};\n"
    s += f"    for x in {seq} {{ assert!(j < {out}.len() && {vo} == {vx}, \"{msg}\"); j += 1; }}\n"
    s += f"    assert!(j == {out}.len(), \"{msg} (length)\");\n"
    return s


def multiset_eq(seq, k, out, n, msg="collect_x is not a permutation of the sequential result"):
    """forall probe value p: count(out, p) == count(seq, p); plus equal lengths"""
    vo = {"ref": f"*{out}[j]", "val": f"{out}[j]", "idx": f"{out}[j]"}[k]
    vx = {"ref": "*x", "val": "x", "idx": "x"}[k]
    pt = "usize" if k == "idx" else "u8"
    s = f"    let pv: {pt} = kani::any();\n    let mut c1 = 0usize;\n    let mut c2 = 0usize;\n    let mut l2 = 0usize;\n"
    s += f"    let mut j = 0;\n    while j < {out}.len() {{ if {vo} == pv {{ c1 += 1; }} j += 1; }}\n"
    s += f"    ORACLE.store(true, AO::Relaxed);\n    for x in {seq} {{ if {vx} == pv {{ c2 += 1; }} l2 += 1; }}\n"
    s += f"    assert!(c1 == c2 && l2 == {out}.len(), \"{msg}\");\n"
    return s


def cmp_opt(kind, msg):
    if kind == "ref":
        s = f'    assert!(r.copied() == e.copied(), "{msg}");\n'
    else:
        s = f'    assert!(r == e, "{msg}");\n'
    return s + "    kani::cover!(e.is_none());\n    kani::cover!(e.is_some());\n"


def scalar_harness(prop, term, ty, src, n, t, c, chunk_expr=None, extra_pre="", extra_post="", tag="", ops=None,
                   weight=None, available=None, covers=True, nt_expr=None):
    p = Pipeline(src, ops if ops is not None else chain_for(ty))
    params = params_str(nt_expr if nt_expr is not None else t, chunk_expr if chunk_expr else c)
    body = sched_prelude(n, available or t, src=src)
    body += extra_pre
    body += terminal_code(p, params, term, n)
    if covers:
        if term in ("first", "first_with_index"):
            # early exit at the first surviving element: "one worker takes everything" need not be reachable
            body += f"    kani::cover!(model::claimed_by(0) == {t - 1});\n" if t >= 2 else "    kani::cover!(true);\n"
        else:
            body += sched_covers(n, t)
    body += extra_post
    name = cfg_name(prop, term, ty, src, f"n{n}", f"t{t}", f"c{c}", tag)
    return H(name, body, {"terminal": term, "type": p.type(), "kernel": KERNEL_OF_TYPE[p.type()], "src": src, "n": n,
                          "threads": t, "chunk": chunk_expr or f"Exact({c})", "schedule": "symbolic",
                          "pipeline": p.descr()},
             unwind=(23 if (chunk_expr and "Auto" in chunk_expr) else n + 2), weight=weight or n * t * (2 if c == 1 else 3))


# ---------------------------------------------------------------- shape-enumerated (Vec-building) terminals
import itertools


def owner_tables(n, t, c):
    """all assignments of the aligned blocks of size c to t workers, as per-position tables"""
    nb = (n + c - 1) // c
    out = []
    for blocks in itertools.product(range(t), repeat=nb):
        out.append([blocks[i // c] for i in range(n)])
    return out


def count_vectors(ty, n):
    """how many outputs each element yields: the survival mask (0/1) or the flat_map fan-out (0..2)"""
    p = Pipeline("slice", chain_for(ty))
    kinds = [o.kind for o in p.ops]
    if "flat_map" in kinds:
        return list(itertools.product((0, 1, 2), repeat=n))  # larger fan-outs (up to 4) are added as selected shapes
    if "filter" in kinds or "filter_map" in kinds:
        return list(itertools.product((0, 1), repeat=n))
    return [tuple([1] * n)]


def shape_assumes(p, counts):
    s = ""
    for i, k in enumerate(counts):
        s += f"    kani::assume({p.seq_single(str(i))}.count() == {k});\n"
    return s


def shape_name(owners, counts):
    return "o" + "".join(str(x) for x in owners) + "_k" + "".join(str(x) for x in counts)


def tagged_prelude(tp, n, t, owners, obs, available=None):
    s = tp.decl()
    s += f"    model::begin({n}, {available or t}, {owners_literal(owners)}, {obs});\n"
    s += "    #[cfg(not(kani))]\n    { model::set_base(a.as_ptr() as usize); model::set_stride(core::mem::size_of::<(usize, u8)>()); }\n"
    return s


def tagged_seq_eq(tp, out, offset="0", msg="collected sequence differs from the sequential one"):
    d = "*" if tp.final_is_ref() else ""
    s = f"    ORACLE.store(true, AO::Relaxed);\n    let mut j = {offset};\n"
    s += f"    for x in {tp.seq()} {{ assert!(j < {out}.len() && {d}{out}[j] == {d}x, \"{msg}\"); j += 1; }}\n"
    s += f"    assert!(j == {out}.len(), \"{msg} (length)\");\n"
    return s


def tagged_multiset_eq(tp, out, msg="collect_x is not a permutation of the sequential result"):
    d = "*" if tp.final_is_ref() else ""
    s = "    let pt: usize = kani::any();\n    let pv: u8 = kani::any();\n    let mut c1 = 0usize;\n    let mut c2 = 0usize;\n    let mut l2 = 0usize;\n"
    s += f"    let mut j = 0;\n    while j < {out}.len() {{ if {d}{out}[j] == (pt, pv) {{ c1 += 1; }} j += 1; }}\n"
    s += f"    ORACLE.store(true, AO::Relaxed);\n    for x in {tp.seq()} {{ if {d}x == (pt, pv) {{ c2 += 1; }} l2 += 1; }}\n"
    s += f"    assert!(c1 == c2 && l2 == {out}.len(), \"{msg}\");\n"
    return s


def collect_harness(prop, term, ty, src, n, t, c, owners, counts, obs=1, extra_pre="", check=None, tag="",
                    chunk_expr=None, target=None, weight=None, count_calls=False, extra_post="", unwind=None, available=None,
                    drainer=0):
    """One query = one shape: owner table x outputs-per-element, values symbolic.
    term: collect_vec | collect | collect_x | collect_into (target = Rust expr of the pre-filled target and its
    prefix length is checked by `check`)."""
    tsrc = {"slice": "tslice", "vec": "tvec", "iter": "titer", "iterf": "titerf", "counting": "tcounting",
            "sched": "tsched", "schedx": "tschedx"}[src]
    tp = TaggedPipeline(ty, counts, src=tsrc, count_calls=count_calls, fan_extra=(0 if term == "collect_x" else 1))
    if owners is None:
        # iterator-backed source or sequential mode: no schedule model (first worker drains all)
        body = tp.decl() + f"    model::begin_drain({max(t, 2)}, {drainer if t > 1 else 0});\n"
        body += "    #[cfg(not(kani))]\n    { model::set_base(a.as_ptr() as usize); model::set_stride(core::mem::size_of::<(usize, u8)>()); }\n"
    else:
        body = tagged_prelude(tp, n, t, owners, obs, available)
    body += extra_pre
    params = params_str(t, chunk_expr if chunk_expr else c)
    if check is not None:
        body += check(tp, params)
    elif term in ("collect_vec", "collect"):
        body += f"    let out = {tp.par(params)}.{term}();\n" + tagged_seq_eq(tp, "out")
    elif term == "collect_x":
        body += f"    let out = {tp.par(params)}.collect_x();\n" + tagged_multiset_eq(tp, "out")
    else:
        raise ValueError(term)
    body += extra_post
    body += "    kani::cover!(true);\n"

    name = cfg_name(prop, term, ty, src, f"n{n}", f"t{t}", f"c{c}", shape_name(owners if owners is not None else ["d", drainer], counts), tag)
    return H(name, body, {"terminal": term, "type": ty, "kernel": KERNEL_OF_TYPE[ty], "src": src, "n": n, "threads": t,
                          "chunk": chunk_expr or f"Exact({c})",
                          "schedule": ({"owners": list(owners), "observations": {1: "lazy", 2: "eager"}.get(obs, obs)}
                                       if owners is not None else ("sequential mode" if t == 1 else f"worker {drainer} drains the source, the others find it exhausted")),
                          "outputs_per_element": list(counts), "values": "symbolic, decisions on concrete position tags"},
             unwind=unwind if unwind else 34 if (ty == "M" and (term == "collect" or src in ("sched", "iterf", "counting"))) else max(n + 3, sum(counts) + 3, 2 * n + 1 if "FL" in ty else 0),
             weight=weight or (5 + sum(counts) * 2 + (6 if term in ("collect", "collect_x") else 0)))


def cap(items, k, seed=0):
    """at most k of items, spread evenly; VERIF_SEED rotates which ones (the evidence file lists them)"""
    items = list(items)
    if len(items) <= k:
        return items
    step = len(items) / k
    off = seed % max(1, int(step))
    return [items[min(len(items) - 1, int(i * step) + off)] for i in range(k)]
