"""C03 reduce family combines every surviving element exactly once."""
from props.common import *

META = {
    "functions": ["orx_parallel::core::{map_fil_red, filtermap_fil_red, flatmap_fil_red}::* (par, task, seq)",
                  "orx_parallel::core::utils::maybe_reduce", "orx_parallel::core::runner::Runner::{new, reduce}",
                  "Par::{reduce, fold, sum, min, max, min_by, max_by, min_by_key, max_by_key}"],
    "bounds": {"quick": {"n": 4, "threads": 2, "chunk": "Exact(1), Exact(2)", "element": "u8 symbolic",
                         "operators": "xor, wrapping add, min, max, by-key extremum with ties",
                         "schedule": "symbolic owner table + spawner observations (includes: a worker gets nothing, one gets all)"},
               "thorough": {"n": "4..5", "threads": "2..3", "chunk": "Exact(1..3), Auto, Min(2)"}},
    "outside": ["n above the bound", "operators other than the listed ones",
                "iterator-backed sources only under the first-worker-drains-all schedule"],
    "assumptions": COMMON_ASSUMPTIONS,
}


def h(term, ty, src, n, t, c, chunk_expr=None):
    return scalar_harness("c03", term, ty, src, n, t, c, chunk_expr=chunk_expr)


def harnesses(tier, seed):
    hs = []
    if tier == "quick":
        for ty, term in (("MF", "reduce_xor"), ("FMF", "reduce_add"), ("FLF", "reduce_xor")):
            for c in (1, 2):
                hs.append(h(term, ty, "slice", 3 if (ty == "FLF" and c == 2) else 4, 2, c))
        # more chunks than workers x chunk size: a worker that stops pulling early loses the tail
        hs.append(h("reduce_add", "FMF", "slice", 5, 2, 2))
        hs.append(h("reduce_xor", "FMF", "slice", 5, 2, 1))
        hs.append(h("reduce_xor", "MF", "slice", 5, 2, 2))
        hs.append(h("reduce_xor", "MF", "sched", 4, 2, 1))   # iterator-backed sources under the schedule model
        hs.append(h("reduce_add", "FMF", "sched", 4, 2, 2))
        hs.append(h("min_by_key", "MF", "slice", 4, 2, 1))
        hs.append(h("max", "FM", "slice", 4, 2, 2))
        hs.append(h("sum", "F", "slice", 4, 2, 1))
        hs.append(h("fold", "M", "slice", 4, 2, 2))
    else:
        heavy_ty = ("FL", "FLF")
        for ty in ("E", "M", "F", "MF", "FM", "FMF", "FL", "FLF"):
            src = "vec" if ty in ("E", "F") else "slice"
            for term in ("reduce_xor", "reduce_add", "reduce_min", "reduce_max", "fold", "sum", "min", "max",
                         "min_by_key", "max_by_key", "min_by", "max_by"):
                cfgs = [(4, 2, 1), (4, 2, 2)] if ty not in heavy_ty else [(4, 2, 1), (3, 2, 2)]
                if term in ("reduce_xor", "reduce_add") and ty not in heavy_ty:
                    cfgs += [(5, 3, 1), (5, 2, 2), (5, 2, 1)]
                if src == "vec":
                    # chunked pulls from the owning Vec source (take_slice + NoLeakIter) cost ~17 min per query
                    cfgs = [cf for cf in cfgs if cf[2] == 1]
                if term == "sum" and ty == "FLF":
                    # arithmetic + over up to 8 symbolic survivors: > 30 min per query; reduce_add covers the kernel
                    cfgs = [(3, 2, 1)]
                for (n, t, c) in cfgs:
                    hs.append(h(term, ty, src, n, t, c))
            if ty not in heavy_ty and src != "vec":
                hs.append(h("reduce_xor", ty, src, 4, 2, "min2", "ChunkSize::Min(NonZeroUsize::new(2).unwrap())"))
            if ty not in ("E", "F"):
                hs.append(h("reduce_xor", ty, "sched", 4 if ty not in heavy_ty else 3, 2, 1))
        for ty in ("E", "F"):
            for c in (1, 2):
                hs.append(h("reduce_ref_min", ty, "slice", 4, 2, c))
                hs.append(h("min", ty, "slice", 4, 2, c))
    return hs
