"""C15 parameters never change a result or make a computation fail."""
from props.common import *
from props import arith

META = {
    "functions": ["orx_parallel::core::runner::Runner::{new, do_spawn, next_chunk_size, next_chunk_size_known_len, next_chunk_size_unknown_len}",
                  "orx_parallel::core::runner_settings::chunk_size::{calc_chunk_size, auto_chunk_size, min_chunk_size}",
                  "orx_parallel::core::runner_settings::num_threads::{calc_num_threads, set_num_threads, auto_num_threads}",
                  "orx_parallel::core::runner_settings::utils::div_ceil", "ResolvedChunkSize::validate",
                  "result-equality part: the count / reduce / find kernels under Auto, Exact(c), Min(c) for the dense small grid"],
    "bounds": {"quick": {"arithmetic": "all NumThreads x ChunkSize(any NonZero usize) x ParTask x Option<usize>, full 64-bit; available_parallelism 1..=16",
                         "grid": "n in 0..3, threads in {Auto,1,2}, chunk in {Auto, Exact(1..=n+1), Min(1..=n+1)} on count/reduce/find (symbolic schedule)"},
               "thorough": {"arithmetic": "same + available_parallelism 1..=1024 for Runner::new and the division path",
                            "grid": "n in 0..4 (ChunkSize::Auto only up to n = 3), threads {Auto,2,3}"}},
    "outside": ["large input lengths are covered only by the arithmetic (totality) part", "available_parallelism() = Err"],
    "assumptions": COMMON_ASSUMPTIONS + ["HasMore::Yes(r) is only produced with r <= the source length (contract of try_get_len)"],
}


def grid_harness(term, ty, n, nt, kind, c, avail):
    chunk_expr = {"auto": "ChunkSize::Auto", "exact": f"ChunkSize::Exact(NonZeroUsize::new({c}).unwrap())",
                  "min": f"ChunkSize::Min(NonZeroUsize::new({c}).unwrap())"}[kind]
    nt_expr = "NumThreads::Auto" if nt == "auto" else str(nt)
    t = avail if nt == "auto" else min(nt, avail)
    p = Pipeline("slice", chain_for(ty))
    body = sched_prelude(n, avail) if n > 0 else (f"    let a: [u8; 0] = [];\n    model::begin(0, {avail}, None, 0);\n")
    # the reference: the same computation with num_threads(1)
    par = terminal_code(p, params_str(nt_expr, chunk_expr), term, n)
    body += par
    name = cfg_name("c15_grid", term, ty, f"n{n}", f"nt{nt}", kind, c)
    return H(name, body, {"terminal": term, "type": ty, "n": n, "threads": t, "num_threads": str(nt), "chunk": f"{kind}({c})",
                          "available_parallelism": avail, "schedule": "symbolic"}, unwind=(23 if kind == "auto" else max(n, 2) + 2), weight=5 + n * 3)


def harnesses(tier, seed):
    hs = []
    apmaxes = (16,) if tier == "quick" else (16, 1024)
    for apmax in apmaxes:
        hs.append(arith.arith(f"c15_runner_new_total_ap{apmax}", apmax, arith.TOTALITY, covers=arith.COV,
                              desc={"claim": "Runner::new never panics; threads >= 1; chunk >= 1"}))
        if apmax <= 16:   # with available_parallelism up to 1024 this query does not finish in 30 min
            hs.append(arith.arith(f"c15_next_chunk_total_nodiv_ap{apmax}", apmax, arith.NEXT_TOTAL, with_hm=True,
                                  hm_constraint=arith.NO_DIV, covers="    kani::cover!(hmk == 2 && csk == 2 && k > 0 && nc.is_some());\n",
                                  desc={"claim": "do_spawn / next_chunk_size never panic; chunk >= 1 (all paths without division, full width)"}))
        hs.append(arith.arith(f"c15_next_chunk_total_div16_ap{apmax}", apmax, arith.NEXT_TOTAL, with_hm=True,
                              hm_constraint=arith.DIV_ONLY, covers=arith.COV_HM,
                              desc={"claim": "adaptive growth path of next_chunk_size never panics; chunk >= 1", "width": "len, chunk, spawned below 2^16"}))
    ns = (0, 1, 2, 3) if tier == "quick" else (0, 1, 2, 3, 4)
    nts = ("auto", 2) if tier == "quick" else ("auto", 2, 3)
    terms = (("count", "MF"),) if tier == "quick" else (("count", "MF"), ("reduce_xor", "FMF"), ("find", "FLF"))
    for term, ty in terms:
        for n in ns:
            for nt in nts:
                for kind in ("auto", "exact", "min"):
                    if kind == "auto" and n > 3:
                        continue   # ChunkSize::Auto needs unwind 23: 10-20 min per query at n = 4
                    cs = (1,) if kind == "auto" else tuple(range(1, n + 2))
                    if tier == "quick" and kind != "auto":
                        cs = tuple(c for c in cs if c in (1, n, n + 1))
                    for c in cs:
                        hs.append(grid_harness(term, ty, n, nt, kind, c, 2 if nt in ("auto", 2) else 3))
    return hs
