"""C16 computations are lazy: nothing runs before the terminal call."""
from props.common import *
from gen.dsl import TRANSITIONS
from props.c12 import OPS

META = {
    "functions": ["Par::{map, filter, flat_map, filter_map, num_threads, chunk_size} of all eight Par types",
                  "IntoPar::into_par / IterIntoPar::par constructors", "Runner::{run, run_map, reduce} (must not be entered)"],
    "bounds": {"quick": {"chains": "8 Par types x 4 transformations + configuration calls", "input": "2 elements, every filter passes",
                         "sources": "slice and a consumption-counting by-value iterator"},
               "thorough": {"chains": "same + two-transformation tails", "sources": "slice, vec, range, counting iterator"}},
    "outside": ["chains longer than type-reaching chain + 2 transformations"],
    "assumptions": ["at an eager site the inner collect (the finding itself) runs under the first-worker-drains-all schedule",
                    "std::thread::available_parallelism() = Ok(2)"],
}


def h(ty, opname, src, second=None):
    base = chain_for(ty)
    ops = base + [OPS[opname]] + ([OPS[second]] if second else [])
    p = Pipeline("iterv" if src == "counting" else src, ops, count_calls=True)
    body = "    let a: [u8; 2] = [0, 1];\n    model::begin_unscheduled(2);\n"
    head = p.par_src()
    if src == "counting":
        head = "a.iter().map(|x: &u8| { bump(4, *x); *x }).par()"
    eager = par_type(ops)[1]
    # chains through an eager site: the inner collect is the finding itself; keep it sequential so that
    # the query stays small (a parallel inner collect is the heap-merge path, see C01)
    s = head + (".num_threads(1).chunk_size(1)" if eager else ".num_threads(2).chunk_size(1)")
    kind = "val" if src == "counting" else p.src_kind()
    for i, op in enumerate(ops):
        s += f".{op.kind}({p.closure(op, kind, i)})"
        if op.kind != "filter":
            kind = "val"
    body += f"    let q = {s};\n    let q = q.chunk_size(2).num_threads({1 if eager else 2});\n"
    body += '    assert!(total_calls() == 0, "a user closure ran / the source was advanced before the terminal call");\n'
    body += '    assert!(model::runs() == 0 && model::scopes() == 0, "a computation was started before the terminal call");\n'
    # second clause: the parameters in effect at the terminal decide how all the work is done
    body += "    let r = q.num_threads(1).count();\n"
    body += '    assert!(model::scopes() == 0, "work was done in parallel although num_threads(1) was in effect at the terminal call");\n'
    body += "    kani::cover!(total_calls() >= 2);\n"
    site = [f"{t}::{o}" for (t, o, _) in eager]
    name = cfg_name("c16", ty, opname, ("then_" + second) if second else "", src)
    return H(name, body, {"type": ty, "op": opname, "then": second, "src": src, "n": 2, "threads": 2,
                          "eager_sites_on_chain": site, "site": site[0] if site else None},
             unwind=6, weight=3 + 5 * len(eager))


def harnesses(tier, seed):
    hs = []
    for ty in ("E", "M", "F", "MF", "FM", "FMF", "FL", "FLF"):
        for opname in ("map", "filter", "filter_map", "flat_map"):
            hs.append(h(ty, opname, "slice"))
            if tier != "quick" or (ty, opname) in (("M", "map"), ("FM", "filter"), ("FL", "flat_map")):
                hs.append(h(ty, opname, "counting"))
            if tier != "quick":
                for src in ("vec", "range"):
                    hs.append(h(ty, opname, src))
                if not TRANSITIONS[(ty, opname)].endswith("!"):
                    nt = TRANSITIONS[(ty, opname)]
                    for second in ("map", "filter", "filter_map", "flat_map"):
                        if not TRANSITIONS[(nt, second)].endswith("!") or True:
                            hs.append(h(ty, opname, "slice", second=second))
    seen = set()
    hs = [h for h in hs if not (h.name in seen or seen.add(h.name))]
    return hs
