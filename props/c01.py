"""C01 ordered collection equals sequential iteration."""
from props.common import *

META = {
    "functions": ["orx_parallel::core::map_col::{map_col, task, seq_map_col}", "orx_parallel::core::map_fil_col::{task, heap_sort_into_vec, "
                  "heap_sort_into_pinned_vec, par_/seq_map_fil_col_vec/_pinned_vec}", "orx_parallel::core::filtermap_fil_col::*",
                  "orx_parallel::core::flatmap_fil_col::* (composite keys)", "Runner::{run, run_map}",
                  "collect_into::{vec, split_vec}::{map_into, map_filter_into, filtermap_filter_into, flatmap_filter_into}",
                  "orx_concurrent_ordered_bag::ConcurrentOrderedBag::{set_value, set_values, into_inner}, orx_priority_queue::BinaryHeap (d-ary heap), "
                  "orx_fixed_vec / orx_split_vec push & growth"],
    "bounds": {"quick": {"n": "2 (all shapes), 3 with chunk 2 (selected masks)", "threads": 2, "chunk": "Exact(1), Exact(2)",
                         "shape": "every owner table x every survival mask / flat_map fan-out in {0,1,2} is its own query; element values symbolic",
                         "targets": "Vec (collect_vec); SplitVec (collect) on one shape per kernel"},
               "thorough": {"n": "3 (all shapes) and 4 with chunk 2", "threads": "2, 3 (with lazy and eager spawner observations)", "targets": "Vec and SplitVec"}},
    "outside": ["shapes are case-split (one query each), not symbolic: symbolic Vec lengths exhaust memory (DESIGN.md section 2)",
                "n above the bound; iterator-backed sources only under the first-worker-drains-all schedule",
                "chains of transformations are checked in sequential mode and the drain schedule only (see C09)"],
    "assumptions": COMMON_ASSUMPTIONS,
}

INTERESTING3 = {"MF": [(1, 1, 1), (1, 0, 1), (0, 1, 0)], "FMF": [(1, 1, 1), (1, 0, 1), (0, 1, 1)], "M": [(1, 1, 1)],
                # incl. elements yielding more outputs than the chunk holds (composite keys must not spill into the next chunk)
                "FLF": [(1, 2, 1), (2, 0, 2), (4, 1, 1), (3, 0, 1)]}
FL_QUICK = [(1, 2), (2, 0), (0, 1), (2, 2)]


def harnesses(tier, seed):
    hs = []
    if tier == "quick":
        for ty in ("M", "MF", "FMF", "FLF"):
            cvs = count_vectors(ty, 2) if ty != "FLF" else FL_QUICK
            for owners in owner_tables(2, 2, 1):
                for k in cvs:
                    hs.append(collect_harness("c01", "collect_vec", ty, "slice", 2, 2, 1, owners, k))
            for owners in owner_tables(3, 2, 2):
                for k in INTERESTING3[ty]:
                    if sum(k) >= 6 and owners[0] == owners[2]:
                        continue  # the expensive fan-out-4 shapes only where neighbouring chunks have different owners
                    hs.append(collect_harness("c01", "collect_vec", ty, "slice", 3, 2, 2, owners, k))
            hs.append(collect_harness("c01", "collect", ty, "slice", 2, 2, 1, [1, 0], (1, 1)))
            # fewer chunks than workers: one chunk of 2, held by the first or by the last worker
            for owners in ([0, 0], [1, 1]):
                hs.append(collect_harness("c01", "collect_vec", ty, "slice", 2, 2, 2, owners, (1, 1) if ty != "FLF" else (2, 1)))
        # iterator-backed sources (unknown and exact length) under the full schedule model
        for ty in ("M", "MF"):
            for src in ("sched", "schedx"):
                for owners in owner_tables(2, 2, 1):
                    hs.append(collect_harness("c01", "collect_vec", ty, src, 2, 2, 1, owners, (1, 1)))
                hs.append(collect_harness("c01", "collect_vec", ty, src, 3, 2, 1, [0, 1, 0], (1, 1, 1)))
        hs.append(collect_harness("c01", "collect_vec", "FMF", "sched", 2, 2, 1, [1, 0], (1, 1)))
        hs.append(collect_harness("c01", "collect", "M", "sched", 2, 2, 1, [1, 0], (1, 1)))
    else:
        light, heavy = [], []
        for ty in ("M", "MF", "FMF", "FLF"):
            bucket = heavy if ty == "FLF" else light
            for (n, t, c) in ((3, 2, 1), (3, 2, 2), (4, 2, 2), (3, 3, 1), (2, 2, 2), (3, 3, 2)):
                cvs = count_vectors(ty, n)
                for owners in owner_tables(n, t, c):
                    for k in cvs:
                        for obs in ((1, 2) if t >= 3 else (1,)):
                            bucket.append(collect_harness("c01", "collect_vec", ty, "slice", n, t, c, owners, k, obs=obs,
                                                          tag="" if obs == 1 else "eagerobs"))
            for src in ("sched", "schedx", "vec"):
                # chunked pulls from an iterator-backed source (BufferIter over ConIterOfIter) need > 28 GB: chunk 1 only
                for (n, t, c) in (((3, 2, 1), (3, 2, 2)) if src == "vec" else ((3, 2, 1),)):
                    for owners in owner_tables(n, t, c):
                        for k in (count_vectors(ty, n) if ty != "FLF" else [(1, 2, 1), (2, 0, 2), (4, 1, 0)]):
                            bucket.append(collect_harness("c01", "collect_vec", ty, src, n, t, c, owners, k))
            for owners in owner_tables(3, 2, 1):
                for k in (count_vectors(ty, 3) if ty != "FLF" else [(1, 2, 1), (2, 0, 2), (0, 1, 2)]):
                    bucket.append(collect_harness("c01", "collect", ty, "slice", 3, 2, 1, owners, k))
        for ty in ("F", "FM", "FL"):
            bucket = heavy if ty == "FL" else light
            for owners in owner_tables(3, 2, 1):
                for k in (count_vectors(ty, 3) if ty != "FL" else [(1, 2, 1), (2, 0, 2), (3, 1, 0)]):
                    bucket.append(collect_harness("c01", "collect_vec", ty, "slice", 3, 2, 1, owners, k))
        hs = cap(light, 300, seed) + cap(heavy, 36, seed)
    return hs
