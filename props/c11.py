"""C11 ChunkSize::Exact(c): every pull takes exactly c elements."""
from props.common import *
from props import arith

META = {
    "functions": ["orx_parallel::core::runner_settings::chunk_size::calc_chunk_size", "Runner::{new, next_chunk_size, next_chunk_size_known_len, "
                  "next_chunk_size_unknown_len}", "every kernel's task(.., chunk_size) pull loop (count, reduce, find kernels end-to-end)",
                  "Runner::{run, run_map, reduce}: the chunk value handed to each spawned closure"],
    "bounds": {"quick": {"arithmetic": "Exact(c), any c, any NumThreads/ParTask/len/spawn count/HasMore, full 64-bit",
                         "end-to-end": "c in 1..2, n in 4..5, threads 2..3; the fetch_add stub checks the requested size of EVERY pull of EVERY worker"},
               "thorough": {"end-to-end": "c in 1..3, n up to 6, threads up to 6 (workers spawned after the first lag period)"}},
    "outside": ["the last-pull-is-shorter clause lives inside orx-concurrent-iter (begin+c clamped to len) and is part of the trusted contract"],
    "assumptions": COMMON_ASSUMPTIONS,
}


def e2e(term, ty, n, t, c, src="slice", avail=None):
    pre = f"    model::expect_pull({c});\n"
    blocks = ""
    for b in range(0, n, c):
        for i in range(b + 1, min(b + c, n)):
            blocks += (f'    assert!(model::claimed_by({i}) == model::claimed_by({b}) || model::claimed_by({i}) == 255 || model::claimed_by({b}) == 255, '
                       f'"an aligned block was split between threads");\n')
    post = '    assert!(!model::bad_pull_size(), "a pull requested a number of elements other than the Exact chunk size");\n' + blocks
    post += "    kani::cover!(model::pulls() >= 3);\n"
    return scalar_harness("c11", term, ty, src, n, t, c, extra_pre=pre, extra_post=post, available=avail, tag="exact")


def harnesses(tier, seed):
    hs = []
    for apmax in ((16,) if tier == "quick" else (16, 1024)):
        hs.append(arith.arith(f"c11_exact_stays_exact_ap{apmax}", apmax, arith.EXACT, with_hm=True,
                              cs_constraint="kani::assume(csk == 2);",
                              covers="    kani::cover!(nc.is_some() && k >= 4);\n",
                              desc={"claim": "Exact(c) resolves to exactly c and every later worker gets exactly c"}))
    if tier == "quick":
        hs.append(e2e("count", "MF", 4, 2, 2))
        hs.append(e2e("count", "FMF", 5, 2, 2))
        hs.append(e2e("reduce_xor", "FLF", 4, 2, 1))
        hs.append(e2e("reduce_xor", "FMF", 4, 2, 2))
        hs.append(e2e("reduce_add", "MF", 4, 2, 2))
        hs.append(e2e("find", "MF", 4, 2, 2))
        hs.append(e2e("count", "M", 4, 3, 1))
    else:
        for term, ty in (("count", "MF"), ("count", "FMF"), ("count", "FLF"), ("reduce_xor", "MF"), ("reduce_xor", "FMF"),
                         ("reduce_xor", "FLF"), ("find", "MF"), ("find", "FMF"), ("find", "FLF")):
            for (n, t, c) in (((4, 2, 1), (4, 2, 2), (5, 2, 2), (5, 3, 1), (5, 2, 3)) if ty != "FLF" else ((4, 2, 1), (3, 2, 2))):
                hs.append(e2e(term, ty, n, t, c))
            if ty != "FLF":
                # chunked pulls from the owning Vec source: 25 min / 22 GB per query - left to the slice source
                hs.append(e2e(term, ty, 4, 2, 2, src="range"))
                if ty == "MF":   # the filter_map kernels over the modelled iterator source exhaust 28 GB with the pull-size log
                    hs.append(e2e(term, ty, 4, 2, 1, src="sched"))
        hs.append(e2e("count", "MF", 6, 6, 1, avail=8))
    return hs
