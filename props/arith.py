"""Full-width (64-bit symbolic) harnesses over the runner's crate-private arithmetic, reached
through the cfg-gated wrappers orx_parallel::verif::api::{runner_new, spawn_decisions}."""
from gen.harness import H

AP_STUB = "#[cfg_attr(kani, kani::stub(std::thread::available_parallelism, model::available_parallelism))]\n"

DRAW = """    let ap: usize = kani::any();
    kani::assume(ap >= 1 && ap <= {apmax});
    model::set_available(ap);
    let nt_auto: bool = kani::any();
    let ntv: usize = kani::any();
    kani::assume(ntv > 0);
    let nt = if nt_auto {{ NumThreads::Auto }} else {{ NumThreads::Max(NonZeroUsize::new(ntv).unwrap()) }};
    let csk: u8 = kani::any();
    let csv: usize = kani::any();
    kani::assume(csk < 3 && csv > 0);
    {cs_constraint}
    let cs = match csk {{ 0 => ChunkSize::Auto, 1 => ChunkSize::Min(NonZeroUsize::new(csv).unwrap()), _ => ChunkSize::Exact(NonZeroUsize::new(csv).unwrap()) }};
    let task: u8 = kani::any();
    kani::assume(task < 3);
    let has_len: bool = kani::any();
    let lenv: usize = kani::any();
    let len = if has_len {{ Some(lenv) }} else {{ None }};
"""

DRAW_HM = """    let k: usize = kani::any();
    let hmk: u8 = kani::any();
    let rem: usize = kani::any();
    kani::assume(hmk < 3 && rem > 0);
    if has_len { kani::assume(rem <= lenv); } else { kani::assume(hmk != 2); }
    let hm = match hmk { 0 => orx_concurrent_iter::HasMore::No, 1 => orx_concurrent_iter::HasMore::Maybe, _ => orx_concurrent_iter::HasMore::Yes(rem) };
"""

SAMPLE_NOTE = {"inputs": "NumThreads x ChunkSize(kind, any NonZero usize) x ParTask x Option<usize> len, all 64-bit symbolic"}


def arith(name, apmax, asserts, with_hm=False, cs_constraint="", desc=None, covers="", hm_constraint=""):
    body = DRAW.format(apmax=apmax, cs_constraint=cs_constraint)
    if with_hm:
        body += DRAW_HM + hm_constraint
    body += asserts + covers
    d = {"kind": "arithmetic", "available_parallelism": f"1..={apmax}", "width": "64-bit symbolic"}
    d.update(desc or {})
    return H(name, body, d, unwind=23, sched=False, stubs=AP_STUB, weight=50, timeout=(600, 1800))


TOTALITY = """    let (t, _exact, c) = orx_parallel::verif::api::runner_new(nt, cs, task, len);
    assert!(t >= 1, "resolved thread count is zero");
    assert!(c >= 1, "resolved chunk size is zero");
"""

NEXT_TOTAL = """    let (sp, nc) = orx_parallel::verif::api::spawn_decisions(nt, cs, task, len, k, hm);
    if let Some(x) = nc { assert!(x >= 1, "next chunk size is zero"); }
"""

EXACT = """    let (t, exact, c0) = orx_parallel::verif::api::runner_new(nt, cs, task, len);
    assert!(exact && c0 == csv, "Exact(c) is not resolved to exactly c");
    let (sp, nc) = orx_parallel::verif::api::spawn_decisions(nt, cs, task, len, k, hm);
    if let Some(x) = nc { assert!(x == csv, "a later worker would pull with a size other than c"); }
"""

MAXN = """    let (t, _exact, _c) = orx_parallel::verif::api::runner_new(nt, cs, task, len);
    assert!(t >= 1);
    if !nt_auto { assert!(t <= ntv, "more threads than Max(n) allows"); }
    assert!(t <= ap || !has_len || true);
    let (sp, _nc) = orx_parallel::verif::api::spawn_decisions(nt, cs, task, len, k, hm);
    if k >= t - 1 { assert!(!sp, "the spawn loop would create more than max-1 workers before the final one"); }
    if !nt_auto && ntv == 1 { assert!(!sp && t == 1); }
"""

COV = "    kani::cover!(csk == 1 && has_len && lenv > 1);\n    kani::cover!(csk == 0 && has_len && lenv > (1 << 22));\n"
COV_HM = "    kani::cover!(hmk == 2 && csk == 1 && k > 0 && nc.is_some());\n"

# the adaptive growth rule divides (done / spawned, done_per_thread / chunk): 64-bit symbolic division does not
# finish in the SAT back end, so the query is split: every path without a division at full width, the division
# path with all magnitudes below 2^16
NO_DIV = "    kani::assume(!(csk != 2 && hmk == 2 && k > 0));\n"
DIV_ONLY = ("    kani::assume(csk != 2 && hmk == 2 && k > 0);\n"
            "    kani::assume(lenv < 65536 && csv < 65536 && k < 256 && ntv < 65536);\n")
