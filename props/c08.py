"""C08 NumThreads::Max(n) bounds concurrency; Max(1) runs on the calling thread."""
from props.common import *
from props import arith

META = {
    "functions": ["orx_parallel::core::runner::Runner::{new, do_spawn, run, run_map, reduce} (spawn loops)",
                  "orx_parallel::core::runner_settings::num_threads::{calc_num_threads, set_num_threads, auto_num_threads}",
                  "Params::is_sequential and the seq_* dispatch of every kernel", "eager-site inner collects (params in force)"],
    "bounds": {"quick": {"arithmetic": "full 64-bit: max_num_threads <= n for Max(n); do_spawn(k, _) false for k >= max-1",
                         "end-to-end": "Max(n), n in 1..3 with available_parallelism 4, len 4, symbolic schedule and spawner observations; "
                                       "observable = number of spawn calls per scope (tight upper bound on live workers) and scope entries"},
               "thorough": {"end-to-end": "additionally Max(6) / available 8 / len 6 (crosses the 4-spawn lag period)"}},
    "outside": ["real thread identity (the model has no OS threads; a spawned closure is the unit that is counted)"],
    "assumptions": COMMON_ASSUMPTIONS,
}

SPAWN = '    assert!(model::max_spawns() <= {n}, "more workers were spawned than NumThreads::Max(n) allows");\n'
SEQ = ('    assert!(model::scopes() == 0 && model::max_spawns() == 0, "Max(1) entered a thread scope / spawned a worker");\n')


def e2e(term, ty, n_threads, length, c, avail):
    post = SPAWN.format(n=n_threads) + f"    kani::cover!(model::max_spawns() == {n_threads});\n"
    return scalar_harness("c08", term, ty, "slice", length, n_threads, c, available=avail, extra_post=post,
                          tag=f"max{n_threads}_ap{avail}")


def e2e_collect(term, ty, n_threads, length, c, avail, owners, counts, obs):
    """spawn loops of Runner::run (map-only collect) and Runner::run_map (filtering collects, collect_x)"""
    post = SPAWN.format(n=n_threads) + f"    kani::cover!(model::max_spawns() >= 1);\n"
    return collect_harness("c08", term, ty, "slice", length, n_threads, c, owners, counts, obs=obs, extra_post=post,
                           available=avail, tag=f"max{n_threads}_ap{avail}_obs{obs}")


def seq(term, ty, src="slice", ops=None):
    p = Pipeline(src, ops if ops is not None else chain_for(ty))
    n = 3
    # concrete input: whether a scope is entered does not depend on the data, and a computation that wrongly goes
    # parallel (heap merge over vectors of symbolic length) would otherwise exhaust memory instead of being reported
    body = "    let a: [u8; 3] = [0x41, 0x88, 0xC2];\n    model::begin_drain(4, 0);\n"
    if term == "for_each":
        k = p.final_kind()
        body += f"    {p.par('.num_threads(1).chunk_size(1)')}.for_each(move |x| {{ let _ = {val_of(k, 'x')}; }});\n"
    elif term == "collect_into":
        body += f"    let out = {p.par('.num_threads(1).chunk_size(1)')}.collect_into(Vec::new());\n"
        body += seq_eq_loop(p.seq(), p.final_kind(), "out", 0)
    else:
        code = terminal_code(p, ".num_threads(1).chunk_size(1)", term, n)
        # the input is concrete here: the value-dependent reachability witnesses of terminal_code do not apply
        body += "".join(l + "\n" for l in code.split("\n") if l and not l.strip().startswith("kani::cover!"))
    body += SEQ + "    kani::cover!(true);\n"
    sig = "".join({"map": "m", "filter": "f", "filter_map": "o", "flat_map": "l"}[o.kind] for o in p.ops)
    name = cfg_name("c08_max1", term, p.type(), src, ("eager_" + sig) if p.eager_sites() else "")
    return H(name, body, {"terminal": term, "type": p.type(), "pipeline": p.descr(), "n": n, "threads": 1, "num_threads": "Max(1)",
                          "available_parallelism": 4, "schedule": "must stay on the caller"},
             unwind=(34 if (term == "collect" and p.type() in ("E", "M")) else   # SplitVec -> ConcurrentSplitVec: loop over 32 fragments
                     2 * n + 3 if any(o.kind == "flat_map" for o in p.ops) else n + 3), weight=6)


def harnesses(tier, seed):
    hs = []
    for apmax in (16,):   # available_parallelism up to 1024 does not finish within 30 min with the HasMore dimension
        hs.append(arith.arith(f"c08_max_threads_ap{apmax}", apmax, arith.MAXN, with_hm=True,
                              hm_constraint=arith.NO_DIV if True else "",
                              covers="    kani::cover!(!nt_auto && ntv == 3 && ap == 8 && sp);\n",
                              desc={"claim": "threads <= n for Max(n); do_spawn false once max-1 workers exist"}))
    if tier == "quick":
        hs.append(e2e("count", "MF", 2, 4, 1, 4))
        hs.append(e2e("count", "MF", 3, 4, 1, 4))
        hs.append(e2e("find", "FMF", 2, 4, 2, 4))
        hs.append(e2e("reduce_xor", "FLF", 2, 3, 1, 4))
        # the other two spawn loops; lazy observations = the spawner keeps seeing an undrained source
        hs.append(e2e_collect("collect_vec", "M", 2, 3, 1, 4, [1, 0, 1], (1, 1, 1), 1))
        hs.append(e2e_collect("collect_vec", "MF", 2, 3, 1, 4, [1, 0, 1], (1, 0, 1), 1))
        hs.append(e2e_collect("collect_vec", "FMF", 3, 3, 1, 4, [2, 0, 1], (1, 1, 1), 1))
        hs.append(e2e_collect("collect_x", "MF", 2, 3, 1, 4, [0, 1, 0], (1, 1, 1), 1))
        hs.append(e2e_collect("collect_vec", "FLF", 2, 2, 1, 4, [1, 0], (1, 2), 2))
        for term, ty in (("count", "MF"), ("reduce_xor", "FMF"), ("find", "FLF"), ("collect_vec", "M"), ("collect_vec", "MF"),
                         ("collect_x", "MF"), ("for_each", "M"), ("collect_into", "FMF")):
            hs.append(seq(term, ty))
        hs.append(seq("count", None, ops=[F(3), FL(6)]))          # eager site F::flat_map
        hs.append(seq("count", None, ops=[M(1), F(3), FL(6)]))    # eager site MF::flat_map
        hs.append(seq("reduce_xor", None, ops=[FM(5), FL(6)]))    # eager site FM::flat_map
        hs.append(seq("count", None, ops=[FL(6), F(3), M(1)]))    # eager site FLF::map
    else:
        for term, ty in (("count", "MF"), ("count", "FMF"), ("count", "FLF"), ("find", "MF"), ("find", "FMF"), ("find", "FLF"),
                         ("reduce_xor", "MF"), ("reduce_xor", "FMF"), ("reduce_xor", "FLF")):
            for nt in (2, 3):
                for c in (1, 2):
                    if ty == "FLF" and (c == 2 or nt == 3):
                        continue
                    hs.append(e2e(term, ty, nt, 4, c, 4))
        hs.append(e2e("count", "MF", 6, 6, 1, 8))
        for ty, cv in (("M", (1, 1, 1)), ("MF", (1, 0, 1)), ("FMF", (0, 1, 1)), ("FLF", (1, 2, 0))):
            for nt in (2, 3):
                for obs in (1, 2):
                    for term in ("collect_vec", "collect_x"):
                        if term == "collect_x" and ty == "FLF":
                            continue
                        hs.append(e2e_collect(term, ty, nt, 3, 1, 4, [o % nt for o in (1, 0, 2)], cv, obs))
        for ty in ("E", "M", "F", "MF", "FM", "FMF", "FL", "FLF"):
            for term in ("count", "reduce_xor", "find", "first", "any", "all", "collect_vec", "collect", "collect_x", "for_each",
                         "collect_into", "min", "sum"):
                if term in ("reduce_xor",) and ty in ("E", "F"):
                    hs.append(seq(term, ty, src="vec"))
                else:
                    hs.append(seq(term, ty))
        for ops in ([F(3), FL(6)], [M(1), F(3), FL(6)], [FM(5), FL(6)], [FM(5), F(3), FL(6)], [FL(6), FM(5)],
                    [FL(6), F(3), M(1)], [FL(6), F(3), FL(6)], [FL(6), F(3), FM(5)]):
            for term in ("count", "collect_vec"):
                if term == "collect_vec" and sum(1 for o in ops if o.kind == "flat_map") > 1:
                    continue   # two flat_maps into a Vec: > 15 GB / > 25 min
                hs.append(seq(term, None, ops=ops))
    return hs
