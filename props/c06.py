"""C06 collect_into appends to, and never disturbs, existing contents."""
from props.common import *

META = {
    "functions": ["collect_into::vec::{map_into, map_filter_into, flatmap_filter_into, filtermap_filter_into}",
                  "collect_into::fixed_vec::* (delegation to Vec)", "collect_into::split_vec::*", "map_col::{map_col, seq_map_col} (offset writes)",
                  "map_fil_col::{heap_sort_into_vec, heap_sort_into_pinned_vec} (push after existing elements)",
                  "ConcurrentOrderedBag / FixedVec / SplitVec conversions that keep existing elements"],
    "bounds": {"quick": {"n": 2, "threads": "1, 2", "targets": "Vec, FixedVec, SplitVec with 0..2 existing (symbolic) elements, with and without spare capacity",
                         "sources": "known length (slice; every owner table) and unknown length (filtered iterator; drain schedule and sequential mode)"},
               "thorough": {"n": "2..3", "chunk": "Exact(1), Exact(2)"}},
    "outside": ["unknown-length sources only under the first-worker-drains-all schedule and in sequential mode"],
    "assumptions": COMMON_ASSUMPTIONS,
}

TARGETS = {
    "vec": "let mut tgt: Vec<(usize, u8)> = Vec::with_capacity({cap});",
    "fixed": "let mut tgt: FixedVec<(usize, u8)> = FixedVec::new({cap});",
    "split": "let mut tgt: SplitVec<(usize, u8)> = SplitVec::new();",
}


def into_check(target, k, cap):
    def check(tp, params):
        s = "    " + TARGETS[target].format(cap=cap) + "\n"
        s += "    let pre: [u8; 2] = kani::any();\n"
        for i in range(k):
            s += f"    tgt.push((100 + {i}, pre[{i}]));\n"
        s += f"    let out = {tp.par(params)}.collect_into(tgt);\n"
        for i in range(k):
            s += f'    assert!(out.len() >= {k} && out[{i}] == (100 + {i}, pre[{i}]), "collect_into disturbed or discarded the existing contents");\n'
        s += tagged_seq_eq(tp, "out", offset=str(k), msg="collect_into did not append exactly the sequential result")
        return s
    return check


def h(ty, target, src, n, t, c, owners, counts, k, cap, unwind=None, drainer=0):
    tag = f"{target}_pre{k}_cap{cap}"
    uw = unwind or (34 if (ty == "M" and (target == "split" or src in ("iterf", "sched"))) else None)
    return collect_harness("c06", "collect_into", ty, src, n, t, c, owners, counts, check=into_check(target, k, cap), tag=tag, unwind=uw,
                           drainer=drainer)


def harnesses(tier, seed):
    hs = []
    n = 2
    ones = (1, 1)
    if tier == "quick":
        # map-only, known length: offset writes after the existing elements
        for target in ("vec", "fixed", "split"):
            for owners in ([1, 0], [0, 0]):
                # spare capacity: none / some but less than the input / enough
                for (k, cap_q) in ((0, 0), (2, 2), (1, 8), (1, 2), (0, 1)):
                    if target == "split" and (k, cap_q) in ((1, 2), (0, 1)):
                        continue
                    hs.append(h("M", target, "slice", n, 2, 1, owners, ones, k, cap_q))
        # map-only, unknown length: the bridge through SplitVec
        for target in ("vec", "fixed", "split"):
            for t in (1, 2):
                for (k, cap_q) in ((0, 0), (1, 4)):
                    hs.append(h("M", target, "iterf", n, t, 1, None, ones, k, max(cap_q, k + n) if target == "fixed" else cap_q,
                                drainer=(1 if (t == 2 and k == 1) else 0)))
        # the same bridge with the source handed out by every owner table (iterator-backed source under the schedule model)
        for target in ("vec", "fixed", "split"):
            for owners in owner_tables(2, 2, 1):
                hs.append(h("M", target, "sched", n, 2, 1, owners, ones, 1, 4))
        # filtering kernels push after the existing elements
        for ty, counts in (("MF", (1, 1)), ("FMF", (0, 1)), ("FLF", (2, 1))):
            for target in ("vec", "fixed", "split"):
                hs.append(h(ty, target, "slice", n, 2, 1, [1, 0], counts, 1, 8))
            hs.append(h(ty, "vec", "iterf", n, 2, 1, None, counts, 1, 8, drainer=1))
            hs.append(h(ty, "vec", "slice", n, 1, 1, None, counts, 2, 2))
    else:
        light, heavy = [], []
        for n in (2, 3):
            for target in ("vec", "fixed", "split"):
                for (t, c) in ((2, 1), (2, 2)):
                    for owners in owner_tables(n, t, c):
                        for (k, cap_) in ((0, 0), (2, 2), (1, 8), (2, 16), (1, 2), (0, 1), (2, 3)):
                            if target == "split" and cap_ < k + n and (k, cap_) != (0, 0):
                                continue
                            light.append(h("M", target, "slice", n, t, c, owners, tuple([1] * n), k, cap_))
                    for owners in owner_tables(n, t, 1):
                        for (k, cap_) in ((0, 0), (1, 4), (2, 2)):
                            light.append(h("M", target, "sched", n, t, 1, owners, tuple([1] * n), k, cap_))
                for src in ("iterf", "iter"):
                    for t in (1, 2):
                        for (k, cap_) in ((0, 0), (1, 4), (2, 2)):
                            light.append(h("M", target, src, n, t, 1, None, tuple([1] * n), k, cap_))
            for ty in ("MF", "FMF", "FLF"):
                bucket = heavy if ty == "FLF" else light
                cvs = [cv for cv in count_vectors(ty, n) if sum(cv) > 0][:6]
                for counts in cvs:
                    for target in ("vec", "fixed", "split"):
                        for owners in owner_tables(n, 2, 1)[:4]:
                            bucket.append(h(ty, target, "slice", n, 2, 1, owners, counts, 1, 8))
                        bucket.append(h(ty, target, "iterf", n, 2, 1, None, counts, 1, 8))
                        bucket.append(h(ty, target, "slice", n, 1, 1, None, counts, 2, 2))
        hs = cap(light, 300, seed) + cap(heavy, 24, seed)
    seen = set()
    hs = [h for h in hs if not (h.name in seen or seen.add(h.name))]
    return hs
