"""C13 owned elements are dropped exactly once on all non-panicking paths."""
from props.common import *

META = {
    "functions": ["orx_concurrent_iter::ConIterOfVec::{take_one, take_slice, skip_to_end, drop, into_seq_iter} (owning source)",
                  "core::map_fil_col::{heap_sort_into_vec, heap_sort_into_pinned_vec} (ptr::read + set_len(0))",
                  "core::map_col (positional writes into the ordered bag, unwrap_only_if_counts_match)", "core::*_col_x (fragment append)",
                  "core::*_find (skip_to_end drops the untouched remainder)", "core::*_red / *_cnt with by-value closures",
                  "collect_into::{vec, fixed_vec, split_vec} with non-empty targets"],
    "bounds": {"quick": {"n": "2..3", "threads": 2, "item": "drop-observing struct D{id, val, pos}: every construction gets a fresh id, Drop bumps DROPS[id]",
                         "oracle": "after the result is dropped: DROPS[id] == 1 for every id ever constructed; CBMC pointer checks (double free, "
                                   "use after free, out of bounds) are on throughout",
                         "collect terminals": "every owner table, fixed survival / fan-out shape", "scalar terminals": "symbolic schedule, data and cut"},
               "thorough": {"n": "3..4", "threads": "2, 3"}},
    "outside": ["panicking closures (C14)", "n above the bound"],
    "assumptions": COMMON_ASSUMPTIONS,
}

CHAINS = {
    "E": "",
    "M": ".map(move |d: D| {{ probe_val!(); D::with_pos(d.pos, d.val ^ 1) }})",
    "F": ".filter(move |d: &D| {{ probe_val!(); {keep}[d.pos as usize] }})",
    "MF": ".map(move |d: D| {{ probe_val!(); D::with_pos(d.pos, d.val ^ 1) }}).filter(move |d: &D| {keep}[d.pos as usize])",
    "FM": ".filter_map(move |d: D| {{ probe_val!(); if {keep}[d.pos as usize] {{ Some(D::with_pos(d.pos, d.val ^ 16)) }} else {{ None }} }})",
    "FMF": ".filter_map(move |d: D| {{ probe_val!(); if d.pos != 9 {{ Some(D::with_pos(d.pos, d.val ^ 16)) }} else {{ None }} }}).filter(move |d: &D| {keep}[d.pos as usize])",
    "FL": ".flat_map(move |d: D| {{ probe_val!(); let (p, v) = (d.pos, d.val); [D::with_pos(p, v), D::with_pos(p, v ^ 8)].into_iter().take({fan}[p as usize]) }})",
    "FLF": ".flat_map(move |d: D| {{ probe_val!(); let (p, v) = (d.pos, d.val); [D::with_pos(p, v), D::with_pos(p, v ^ 8)].into_iter().take(2) }}).filter(move |d: &D| {keepv}[(d.pos as usize) * 2 + ((d.val >> 3) & 1) as usize * 0 + (d.id as usize % 2) * 0])",
}


def chain(ty, counts):
    n = len(counts)
    keep = "[" + ", ".join("true" if c else "false" for c in counts) + "]"
    fan = "[" + ", ".join(str(c) for c in counts) + "]"
    if ty == "FLF":
        # filter after the fan-out keeps every output of elements with count > 0
        return (".flat_map(move |d: D| { probe_val!(); let (p, v) = (d.pos, d.val); [D::with_pos(p, v), D::with_pos(p, v ^ 8)].into_iter().take(%s[p as usize]) })"
                ".filter(move |d: &D| %s[d.pos as usize])" % ("[" + ", ".join(str(max(c, 1)) for c in counts) + "]", keep))
    return CHAINS[ty].format(keep=keep, fan=fan)


def src_decl(n):
    s = f"    let vals: [u8; {n}] = kani::any();\n"
    s += "    let v: Vec<D> = vec![" + ", ".join(f"D::new(vals[{i}])" for i in range(n)) + "];\n"
    return s


TERMINALS = {
    "collect_vec": "    let out = {par}.collect_vec();\n    let l = out.len();\n    drop(out);\n",
    "collect": "    let out = {par}.collect();\n    let l = out.len();\n    drop(out);\n",
    "collect_x": "    let out = {par}.collect_x();\n    let l = out.len();\n    drop(out);\n",
    "collect_into_vec": "    let pre: u8 = kani::any();\n    let mut tgt: Vec<D> = Vec::with_capacity(1);\n    tgt.push(D::with_pos(9, pre));\n    let out = {par}.collect_into(tgt);\n    let l = out.len() - 1;\n    drop(out);\n",
    "collect_into_split": "    let pre: u8 = kani::any();\n    let mut tgt: SplitVec<D> = SplitVec::new();\n    tgt.push(D::with_pos(9, pre));\n    let out = {par}.collect_into(tgt);\n    let l = out.len() - 1;\n    drop(out);\n",
    "count": "    let l = {par}.count();\n",
    "reduce": "    let out = {par}.reduce(|a: D, b: D| D::with_pos(a.pos, a.val ^ b.val));\n    let l = out.is_some() as usize;\n    drop(out);\n",
    "find": "    let out = {par}.find(move |d: &D| {{ let r = d.val & 16 == 0; if r {{ model::matched(); }} r }});\n    let l = out.is_some() as usize;\n    drop(out);\n",
    # find with the matching positions fixed (light: for fixed owner tables): every element matches, so with two
    # workers both report a match and the reduction has to drop the loser
    "find_all": "    let out = {par}.find(move |d: &D| {{ model::matched(); d.pos < 200 }});\n    let l = out.is_some() as usize;\n    drop(out);\n",
    "first": "    let out = {par}.first();\n    let l = out.is_some() as usize;\n    drop(out);\n",
    "for_each": "    {par}.for_each(|d: D| drop(d));\n    let l = 0usize;\n",
}


def h(term, ty, n, t, c, owners, counts, seq=False):
    body = src_decl(n)
    if owners == "sym":
        body += f"    model::begin({n}, {t}, None, 0);\n"
    elif owners is None:
        body += f"    model::begin_unscheduled({max(t, 2)});\n"
    else:
        body += f"    model::begin({n}, {t}, {owners_literal(owners)}, 1);\n"
    par = f"v.into_par().num_threads({t}).chunk_size({c})" + chain(ty, counts)
    body += TERMINALS[term].format(par=par)
    body += "    let nid = HS.next_id.load(AO::Relaxed) as usize;\n"
    slots = 3 * n + 2
    body += f'    assert!(nid <= {slots}, "more values constructed than drop slots");\n'
    for i in range(slots):
        body += (f'    assert!({i} >= nid || HS.drops[{i}].load(AO::Relaxed) == 1, '
                 f'"a value was leaked or dropped twice (its drop counter is not 1 after the result was dropped)");\n')
    body += f"    kani::cover!(HS.next_id.load(AO::Relaxed) as usize >= {n});\n"
    if owners == "sym":
        if term in ("find", "first"):
            # early exit: "one worker takes everything" need not be reachable
            body += f"    kani::cover!(model::claimed_by(0) == {t - 1});\n"
        else:
            body += sched_covers(n, t)
    osfx = "sym" if owners == "sym" else ("d" if owners is None else "o" + "".join(str(x) for x in owners))
    name = cfg_name("c13", term, ty, f"n{n}", f"t{t}", f"c{c}", osfx, "k" + "".join(str(x) for x in counts))
    scalar = term in ("count", "reduce", "find", "first", "for_each")
    return H(name, body, {"terminal": term, "type": ty, "src": "owning Vec<D>", "n": n, "threads": t, "chunk": f"Exact({c})",
                          "schedule": "symbolic" if owners == "sym" else ({"owners": owners} if owners else "sequential mode" if t == 1 else "drain"),
                          "outputs_per_element": list(counts)},
             unwind=max(n + 3, 2 * n + 2 if ty in ("FL", "FLF") else 0, 3 * n + 4 if False else 0), weight=8 + n * 3)


def harnesses(tier, seed):
    hs = []
    if tier == "quick":
        for ty, cv in (("M", (1, 1)), ("MF", (1, 0)), ("FMF", (0, 1)), ("FLF", (2, 1))):
            for owners in ([1, 0], [0, 0]):
                hs.append(h("collect_vec", ty, 2, 2, 1, owners, cv))
            if ty != "FLF":  # flat_map col_x kernel: ~5 min / 12+ GB per query (see C07), thorough tier only
                hs.append(h("collect_x", ty, 2, 2, 1, [1, 0], cv))
            hs.append(h("collect_into_vec", ty, 2, 2, 1, [0, 1], cv))
        hs.append(h("collect_vec", "MF", 3, 2, 2, [1, 1, 0], (1, 0, 1)))
        hs.append(h("collect_x", "MF", 2, 2, 2, [1, 1], (1, 1)))   # fewer chunks than workers
        hs.append(h("collect_vec", "M", 2, 2, 2, [1, 1], (1, 1)))
        hs.append(h("collect", "MF", 2, 2, 1, [1, 0], (1, 1)))
        # interleaved per-thread vectors (worker 0 holds positions 0 and 2) through the pinned-vec merge
        hs.append(h("collect", "MF", 3, 2, 1, [0, 1, 0], (1, 1, 1)))
        hs.append(h("collect_vec", "FMF", 3, 2, 1, [0, 1, 0], (1, 1, 1)))
        hs.append(h("collect_into_split", "MF", 3, 2, 1, [1, 0, 1], (1, 1, 1)))
        hs.append(h("collect_into_split", "FMF", 2, 2, 1, [1, 0], (1, 1)))
        hs.append(h("collect_vec", "MF", 2, 1, 1, None, (1, 0)))
        for ty in ("E", "M"):
            hs.append(h("find_all", ty, 2, 2, 1, [1, 0], (1, 1)))
            hs.append(h("find_all", ty, 2, 2, 1, [0, 1], (1, 1)))
        for term, ty, cv in (("find", "E", (1, 1, 1)), ("find", "M", (1, 1, 1)), ("count", "MF", (1, 0, 1)), ("reduce", "M", (1, 1, 1)),
                             ("first", "FM", (0, 1, 1)), ("for_each", "M", (1, 1, 1))):
            hs.append(h(term, ty, 3, 2, 1, "sym", cv))
    else:
        light, heavy = [], []
        for ty in ("M", "F", "MF", "FM", "FMF", "FL", "FLF"):
            bucket = heavy if ty in ("FL", "FLF") else light
            for n, t, c in ((2, 2, 1), (3, 2, 1), (3, 2, 2), (2, 2, 2)):
                cvs = [cv for cv in count_vectors("FLF" if ty in ("FL", "FLF") else "MF" if ty != "M" else "M", n)]
                if ty in ("FL", "FLF"):
                    cvs = [cv for cv in cvs if 0 not in cv or ty == "FL"][:9]
                for owners in owner_tables(n, t, c):
                    for cv in cvs:
                        for term in ("collect_vec", "collect_x", "collect_into_vec", "collect"):
                            if term == "collect_x" and ty in ("FL", "FLF") and n > 2:
                                continue   # flat_map col_x kernel at n = 3: > 20 GB / > 25 min per query
                            bucket.append(h(term, ty, n, t, c, owners, cv))
            light.append(h("collect_into_split", ty, 3, 2, 1, [1, 0, 1], (1, 1, 1)))
            light.append(h("collect_vec", ty, 2, 1, 1, None, (1, 1)))
            for term in ("find", "first", "count", "reduce", "for_each"):
                for (n, t, c) in (((3, 2, 1), (3, 2, 2), (4, 2, 1)) if ty not in ("FL", "FLF") else ((3, 2, 1),)):
                    heavy.append(h(term, ty, n, t, c, "sym", tuple([1] * n)))
        for term in ("find", "first"):
            for c in (1, 2):
                heavy.append(h(term, "E", 3, 2, c, "sym", (1, 1, 1)))
        hs = cap(light, 250, seed) + cap(heavy, 50, seed)
    return hs
