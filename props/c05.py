"""C05 closures run exactly once per element; source advanced by one thread at a time (first clause and
the 'fed exactly once' half of the second; the mutual-exclusion half is outside this technique)."""
from props.common import *

META = {
    "functions": ["every kernel's task() loop (count, reduce, find, collect, collect_x kernels)",
                  "closure composition in Par::{map, filter, flat_map, filter_map} of the eight Par types (filter-then-map, has_value-then-value)",
                  "Fallible::{has_value, value, into_option}", "IterIntoPar::par -> ConIterOfIter (source wrapping)"],
    "bounds": {"quick": {"n": "3 (scalar terminals, symbolic schedule and data), 2 (collect terminals, every shape)", "threads": 2,
                         "observed": "per-stage, per-element call counters of instrumented closures compared with the counters of the std chain"},
               "thorough": {"n": "4 / 3", "threads": "2, 3"}},
    "outside": ["'a by-value iterator source is advanced by at most one thread at a time' is mutual exclusion inside ConIterOfIter's spin lock under real "
                "concurrency; the sequentialised model has one running task by construction, so it cannot be decided here (DESIGN.md C05)",
                "iterator-backed sources only under the first-worker-drains-all schedule"],
    "assumptions": COMMON_ASSUMPTIONS,
}

def all_stages(n):
    return "".join(f'    assert!(calls({s}, {i}) == exp({s}, {i}), "a closure was not called exactly as often as in the sequential chain");\n'
                   for s in range(5) for i in range(n))


def scalar(term, ty, n, t, c, src="slice"):
    p = Pipeline(src, chain_for(ty), count_calls=True)
    body = sched_prelude(n, t, tagged=True, src=src)
    body += terminal_code(p, params_str(t, c), term, n)
    if term in ("find", "any", "all", "first"):
        # short-circuit: at most once per element and stage (flat_map outputs: at most its fan-out)
        mx = "2" if any(o.kind == "flat_map" for o in p.ops) else "1"
        body += "".join(f'    assert!(calls({s}, {i}) <= {1 if s == 0 else mx}, "a short-circuit terminal called a closure more than once for an element");\n'
                        for s in range(4) for i in range(n))
    else:
        body += all_stages(n)
    body += sched_covers(n, t) + "    kani::cover!(exp(0, 0) == 1);\n"
    name = cfg_name("c05", term, ty, src, f"n{n}", f"t{t}", f"c{c}")
    return H(name, body, {"terminal": term, "type": ty, "src": src, "n": n, "threads": t, "chunk": f"Exact({c})", "schedule": "symbolic"},
             unwind=n + 2, weight=n * t * 3)


def collect(term, ty, n, t, c, owners, counts, src="slice"):
    post = "    ORACLE.store(true, AO::Relaxed);\n" if False else ""
    post += all_stages(n)
    if src == "counting":
        post += "".join(f'    assert!(calls(4, {i}) == 1, "a source element was not fed to the pipeline exactly once");\n' for i in range(n))
    return collect_harness("c05", term, ty, src, n, t, c, owners, counts, count_calls=True, extra_post=post, tag="calls")


def compose(ty, opname, n=3, src="slice"):
    """closure composition of every (Par type, transformation) pair: per-stage call counters in sequential mode
    (value-dependent filters on symbolic data, so swapped / repeated / skipped stage evaluations are visible)"""
    from props.c12 import OPS
    p = Pipeline(src, chain_for(ty) + [OPS[opname]], count_calls=True)
    body = input_decl(n, tagged=True) + "    model::begin_unscheduled(2);\n"
    body += terminal_code(p, ".num_threads(1)", "count", n)
    body += all_stages(n)
    body += "    kani::cover!(exp(0, 0) == 1);\n"
    name = cfg_name("c05_compose", ty, opname, src, f"n{n}")
    return H(name, body, {"terminal": "count", "type": ty, "then": opname, "src": src, "n": n, "threads": 1, "schedule": "sequential mode",
                          "pipeline": p.descr()}, unwind=(2 * n + 3 if ty in ("FL", "FLF") else n + 3), weight=4)


def harnesses(tier, seed):
    hs = []
    for ty in ("E", "M", "F", "MF", "FM", "FMF", "FL", "FLF"):
        for opname in ("map", "filter", "filter_map", "flat_map"):
            if tier == "quick" and ty == "FLF" and opname in ("filter_map", "flat_map"):
                continue  # three eager sites on the same inner collect (~3.5 min each): one of them in the quick tier
            hs.append(compose(ty, opname, (2 if ty == "FLF" else 3) if tier == "quick" else (3 if ty == "FLF" else 4)))
    if tier == "quick":
        hs += [scalar("count", "MF", 3, 2, 1), scalar("count", "FMF", 3, 2, 2), scalar("reduce_xor", "FLF", 3, 2, 1),
               scalar("find", "MF", 3, 2, 2), scalar("find", "FMF", 3, 2, 1), scalar("reduce_add", "FM", 3, 2, 2),
               scalar("reduce_xor", "FMF", 3, 2, 1), scalar("reduce_xor", "MF", 3, 2, 1)]
        for ty, cvs in (("M", [(1, 1)]), ("MF", [(1, 0), (1, 1)]), ("FMF", [(0, 1), (1, 1)]), ("FLF", [(2, 1), (0, 2)])):
            for owners in ([1, 0], [0, 0]):
                for k in cvs:
                    if ty == "FLF" and owners == [0, 0] and k == (2, 1):
                        continue
                    hs.append(collect("collect_vec", ty, 2, 2, 1, owners, k))
            if ty != "FLF":  # the flat_map col_x kernel costs ~5 min per query (see C07); thorough tier only
                hs.append(collect("collect_x", ty, 2, 2, 1, [1, 0], cvs[-1]))
            hs.append(collect("collect_vec", ty, 2, 2, 1, None, cvs[-1], src="counting"))
    else:
        light, heavy = [], []
        for ty in ("M", "F", "MF", "FM", "FMF", "FL", "FLF"):
            for term in ("count", "reduce_xor", "find", "any"):
                if term == "reduce_xor" and ty == "F":
                    continue
                for (n, t, c) in (((4, 2, 1), (4, 2, 2), (4, 3, 1)) if ty not in ("FL", "FLF") else ((3, 2, 1), (3, 2, 2))):
                    heavy.append(scalar(term, ty, n, t, c))
                heavy.append(scalar(term, ty, 4 if ty not in ("FL", "FLF") else 3, 2, 1, src="sched"))
            bucket = heavy if ty in ("FL", "FLF") else light
            for (n, t, c) in ((3, 2, 1), (3, 2, 2), (2, 2, 2)):
                for owners in owner_tables(n, t, c):
                    for k in count_vectors(ty, n):
                        bucket.append(collect("collect_vec", ty, n, t, c, owners, k))
            for k in count_vectors(ty, 2):
                for owners in owner_tables(2, 2, 1):
                    bucket.append(collect("collect_x", ty, 2, 2, 1, owners, k))
                    bucket.append(collect("collect_vec", ty, 2, 2, 1, owners, k, src="sched"))
                bucket.append(collect("collect_vec", ty, 2, 2, 1, None, k, src="counting"))
                bucket.append(collect("collect_vec", ty, 2, 1, 1, None, k, src="counting"))
        hs += cap(light, 250, seed) + cap(heavy, 60, seed)
    return hs
