#!/bin/bash
# runs every claimed check of MANIFEST.json once (tier from $1, default quick) and prints rc / wall time
tier=${1:-quick}
cd "$(dirname "$(readlink -f "$0")")"
for id in $(python3 -c "import json; print(' '.join(c['property_id'] for c in json.load(open('MANIFEST.json'))['checks']))"); do
  s=$(date +%s)
  python3 check.py $id --tier $tier > /tmp/run_all_${tier}_$id.out 2>&1; rc=$?
  e=$(date +%s)
  echo "$id rc=$rc wall=$((e-s))s $(grep -E '^\[.*\] OK|^VIOLATION|^INCONCLUSIVE' /tmp/run_all_${tier}_$id.out | head -2 | cut -c1-150 | tr '\n' '|')"
done
