// Native side of the generated harness crate (cfg(not(kani))): the same harness functions are
// compiled against
//   * a mock `kani` module whose `any()` returns the counterexample's concrete values in order,
//   * a `model` module with the same API as the symbolic one, implemented as a deterministic
//     scheduler over REAL threads: orx-parallel is built with the threaded hook flavour, every
//     worker blocks when it starts and at every probe (first closure call per source element),
//     and the controller (running on the spawning thread inside the hook callbacks) lets one
//     worker at a time advance so that source positions are pulled in exactly the order and by
//     exactly the workers of the counterexample's owner table, the spawning thread sees the
//     counter values of the counterexample, and early exit happens at its cut position.

#[cfg(not(kani))]
pub mod kani {
    use std::collections::VecDeque;
    use std::sync::Mutex;

    pub static VALS: Mutex<VecDeque<Vec<u8>>> = Mutex::new(VecDeque::new());

    pub trait Arb: Sized + Copy {
        const SIZE: usize;
        fn from_bytes(b: &[u8]) -> Self;
        fn from_queue() -> Self {
            let v = VALS.lock().unwrap().pop_front();
            match v {
                Some(b) if b.len() == Self::SIZE => Self::from_bytes(&b),
                Some(b) => invalid(&format!("value of {} bytes where {} expected", b.len(), Self::SIZE)),
                None if std::env::var("VERIF_REPLAY_LENIENT").is_ok() => Self::from_bytes(&vec![0u8; Self::SIZE]),
                None => invalid("ran out of concrete values"),
            }
        }
    }

    pub fn invalid(msg: &str) -> ! {
        println!("REPLAY-RESULT: invalid ({msg})");
        std::process::exit(3)
    }

    macro_rules! arb_int {
        ($($t:ty),*) => {$(
            impl Arb for $t {
                const SIZE: usize = std::mem::size_of::<$t>();
                fn from_bytes(b: &[u8]) -> Self {
                    let mut a = [0u8; std::mem::size_of::<$t>()];
                    a.copy_from_slice(b);
                    <$t>::from_le_bytes(a)
                }
            }
        )*};
    }
    arb_int!(u8, u16, u32, u64, usize, i8, i16, i32, i64, isize);

    impl Arb for bool {
        const SIZE: usize = 1;
        fn from_bytes(b: &[u8]) -> Self {
            b[0] & 1 == 1
        }
    }

    impl<T: Arb, const N: usize> Arb for [T; N] {
        const SIZE: usize = T::SIZE * N;
        fn from_bytes(b: &[u8]) -> Self {
            core::array::from_fn(|i| T::from_bytes(&b[i * T::SIZE..(i + 1) * T::SIZE]))
        }
        fn from_queue() -> Self {
            let whole = {
                let q = VALS.lock().unwrap();
                q.front().map(|b| b.len() == Self::SIZE && N != 1).unwrap_or(false)
            };
            if whole {
                let b = VALS.lock().unwrap().pop_front().unwrap();
                Self::from_bytes(&b)
            } else {
                core::array::from_fn(|_| T::from_queue())
            }
        }
    }

    pub fn any<T: Arb>() -> T {
        T::from_queue()
    }

    pub fn assume(c: bool) {
        if !c {
            invalid("an assumption of the harness does not hold for these values");
        }
    }

    macro_rules! cover_ {
        ($($t:tt)*) => {};
    }
    pub(crate) use cover_ as cover;
}

#[cfg(not(kani))]
pub mod model {
    use std::cell::Cell;
    use std::sync::atomic::{AtomicBool, AtomicUsize, Ordering};
    use std::sync::{Condvar, Mutex};
    use std::time::Duration;

    pub const MAXN: usize = @MAXN@;
    pub const MAXT: usize = 16;
    pub const MAXOBS: usize = 12;
    pub const NOBODY: u8 = 255;
    const SPAWNER: usize = usize::MAX;

    #[derive(Clone, Copy, PartialEq, Debug)]
    enum W {
        NotSpawned,
        AtBegin,
        Running,
        AtProbe,
        AtMatch,
        Done,
    }

    struct Ctl {
        active: bool,
        n: usize,
        owner: [u8; MAXN],
        obs: [u8; MAXOBS],
        obs_k: usize,
        obs_policy: u8,
        cut_p: usize,
        unclaimed_from: usize,
        cut: Option<usize>,
        turn: usize,
        w: [W; MAXT],
        matched: [bool; MAXT],
        probe_pos: [Option<usize>; MAXT],
        next_pos: usize,
        spawned: usize,
        free_run: bool,
        model_run: usize,
        runs: usize,
        scopes: usize,
        max_spawns: usize,
        claimed_by: [u8; MAXN],
        base: usize,
        // the position counter inside the iterator object, located by watching its words
        iter_ptr: usize,
        iter_words: usize,
        snapshot: Vec<usize>,
        counter_off: Option<usize>,
        last_counter: usize,
        skip_seen: bool,
    }

    static CTL: Mutex<Ctl> = Mutex::new(Ctl {
        active: false,
        n: 0,
        owner: [0; MAXN],
        obs: [0; MAXOBS],
        obs_k: 0,
        obs_policy: 0,
        cut_p: 0,
        unclaimed_from: usize::MAX,
        cut: None,
        turn: SPAWNER,
        w: [W::NotSpawned; MAXT],
        matched: [false; MAXT],
        probe_pos: [None; MAXT],
        next_pos: 0,
        spawned: 0,
        free_run: false,
        model_run: 0,
        runs: 0,
        scopes: 0,
        max_spawns: 0,
        claimed_by: [NOBODY; MAXN],
        base: 0,
        iter_ptr: 0,
        iter_words: 0,
        snapshot: Vec::new(),
        counter_off: None,
        last_counter: 0,
        skip_seen: false,
    });
    static CV: Condvar = Condvar::new();
    static ANY_MATCHED: AtomicBool = AtomicBool::new(false);
    static PROBES: AtomicUsize = AtomicUsize::new(0);

    thread_local! {
        static ME: Cell<usize> = const { Cell::new(SPAWNER) };
    }

    fn diverged(msg: &str) -> ! {
        println!("REPLAY-RESULT: invalid (schedule not realised: {msg})");
        std::process::exit(3)
    }

    fn modelled(c: &Ctl) -> bool {
        c.active && c.runs == c.model_run + 1
    }

    // ---- harness API (mirrors the symbolic model)
    pub fn begin(n: usize, t: usize, owners: Option<[u8; MAXN]>, obs_policy: u8) {
        let tab = match owners {
            Some(tab) => tab,
            None => {
                let tab: [u8; MAXN] = crate::kani::any();
                for i in 0..n {
                    crate::kani::assume((tab[i] as usize) < t);
                }
                tab
            }
        };
        let obs: [u8; MAXOBS] = crate::kani::any();
        let cut_p: u8 = crate::kani::any();
        let u: u8 = crate::kani::any();
        let unclaimed_from = if owners.is_none() { crate::kani::assume((u as usize) <= n); u as usize } else { n };
        set_available(t);
        let mut c = CTL.lock().unwrap();
        c.active = true;
        c.n = n;
        c.owner = tab;
        c.obs = obs;
        c.obs_policy = obs_policy;
        c.cut_p = cut_p as usize;
        c.unclaimed_from = unclaimed_from;
        drop(c);
        install();
    }


    pub fn owners_from(t: &[u8]) -> [u8; MAXN] {
        let mut tab = [NOBODY; MAXN];
        let mut i = 0;
        while i < MAXN {
            if i < t.len() {
                tab[i] = t[i];
            }
            i += 1;
        }
        tab
    }

    pub fn begin_drain(t: usize, d: usize) {
        DRAINER.store(d, Ordering::SeqCst);
        begin_unscheduled_inner(t);
    }

    pub fn begin_unscheduled(t: usize) {
        let d: u8 = crate::kani::any();
        crate::kani::assume((d as usize) < t);
        DRAINER.store(d as usize, Ordering::SeqCst);
        begin_unscheduled_inner(t);
    }

    fn begin_unscheduled_inner(t: usize) {
        set_available(t);
        // first worker drains everything: every position owned by worker 0
        let mut c = CTL.lock().unwrap();
        c.active = true;
        c.n = MAXN;
        c.owner = [0; MAXN];
        c.obs_policy = 1;
        c.cut_p = 0;
        c.model_run = usize::MAX - 1; // never "modelled": workers are serialised in spawn order
        drop(c);
        install();
    }

    pub static AVAILABLE: AtomicUsize = AtomicUsize::new(2);
    static DRAINER: AtomicUsize = AtomicUsize::new(0);

    extern "C" {
        fn sched_setaffinity(pid: i32, cpusetsize: usize, mask: *const u64) -> i32;
    }

    /// make std::thread::available_parallelism() report k by restricting the CPU affinity
    pub fn set_available(k: usize) {
        AVAILABLE.store(k, Ordering::SeqCst);
        if k == 0 || k > 64 {
            crate::kani::invalid("available_parallelism value cannot be realised on this machine");
        }
        let mask: u64 = if k == 64 { u64::MAX } else { (1u64 << k) - 1 };
        let rc = unsafe { sched_setaffinity(0, 8, &mask as *const u64) };
        let got = std::thread::available_parallelism().map(|x| x.get()).unwrap_or(0);
        if rc != 0 || got != k {
            crate::kani::invalid("available_parallelism value cannot be realised on this machine");
        }
    }

    pub fn sched_pos() -> Option<Option<usize>> {
        None
    }
    pub fn set_base(addr: usize) {
        CTL.lock().unwrap().base = addr;
    }
    static STRIDE: AtomicUsize = AtomicUsize::new(1);
    pub fn set_stride(bytes: usize) {
        STRIDE.store(bytes.max(1), Ordering::SeqCst);
    }

    fn install() {
        unsafe {
            orx_parallel::verif::CALLBACKS = orx_parallel::verif::Callbacks {
                run_begin: cb_run_begin,
                scope_begin: cb_scope_begin,
                scope_end: cb_scope_end,
                spawned: cb_spawned,
                all_spawned: cb_all_spawned,
                task_begin: cb_task_begin,
                task_end: cb_task_end,
            };
        }
    }

    pub fn drainer() -> usize {
        DRAINER.load(Ordering::SeqCst)
    }
    pub fn scopes() -> usize {
        CTL.lock().unwrap().scopes
    }
    pub fn runs() -> usize {
        CTL.lock().unwrap().runs
    }
    pub fn max_spawns() -> usize {
        CTL.lock().unwrap().max_spawns
    }
    pub fn cut() -> usize {
        let c = CTL.lock().unwrap();
        if c.skip_seen { c.cut.unwrap_or(usize::MAX) } else { usize::MAX }
    }
    pub fn claimed_by(pos: usize) -> u8 {
        CTL.lock().unwrap().claimed_by[pos]
    }
    pub fn model_run(k: usize) {
        CTL.lock().unwrap().model_run = k;
    }
    pub fn any_matched() -> bool {
        ANY_MATCHED.load(Ordering::SeqCst)
    }
    // not observable without looking inside the dependency; the native replay of the
    // properties that use them goes through other observations (see DESIGN.md)
    pub fn pulls() -> usize {
        PROBES.load(Ordering::SeqCst)
    }
    pub fn bad_pull_size() -> bool {
        BAD_PULL.load(Ordering::SeqCst)
    }
    pub fn pull_after_skip() -> bool {
        false
    }
    pub fn pull_after_match() -> bool {
        PROBE_AFTER_MATCH.load(Ordering::SeqCst)
    }
    pub fn any_skipped() -> bool {
        CTL.lock().unwrap().skip_seen
    }
    pub fn expect_pull(c: usize) {
        EXPECT_PULL.store(c, Ordering::SeqCst);
    }
    static BAD_PULL: AtomicBool = AtomicBool::new(false);
    static PROBE_AFTER_MATCH: AtomicBool = AtomicBool::new(false);
    static EXPECT_PULL: AtomicUsize = AtomicUsize::new(0);

    // ---- worker side
    fn yield_to_controller(me: usize, st: W, pos: Option<usize>) {
        let mut c = CTL.lock().unwrap();
        if c.free_run || !c.active {
            return;
        }
        c.w[me] = st;
        c.probe_pos[me] = pos;
        if st != W::AtBegin {
            // a worker reporting in for the first time does not hold the turn
            c.turn = SPAWNER;
        }
        CV.notify_all();
        loop {
            if c.free_run || c.turn == me {
                break;
            }
            let (g, to) = CV.wait_timeout(c, Duration::from_secs(20)).unwrap();
            c = g;
            if to.timed_out() && !(c.free_run || c.turn == me) {
                drop(c);
                diverged("a worker waited 20 s for its turn");
            }
        }
        c.w[me] = W::Running;
    }

    pub fn probe(pos: Option<usize>) {
        PROBES.fetch_add(1, Ordering::SeqCst);
        let me = ME.with(|m| m.get());
        if me == SPAWNER {
            return; // sequential execution on the calling thread
        }
        if me < MAXT && CTL.lock().unwrap().matched[me] {
            PROBE_AFTER_MATCH.store(true, Ordering::SeqCst);
        }
        yield_to_controller(me, W::AtProbe, pos);
    }

    pub fn probe_addr(addr: usize) {
        let base = CTL.lock().unwrap().base;
        probe(Some(addr.wrapping_sub(base) / STRIDE.load(Ordering::SeqCst)));
    }

    pub fn matched() {
        ANY_MATCHED.store(true, Ordering::SeqCst);
        let me = ME.with(|m| m.get());
        if me == SPAWNER {
            return;
        }
        {
            let mut c = CTL.lock().unwrap();
            if me < MAXT {
                c.matched[me] = true;
            }
        }
        yield_to_controller(me, W::AtMatch, None);
    }

    fn cb_task_begin(k: usize) {
        ME.with(|m| m.set(k));
        if k >= MAXT {
            diverged("more workers than the model bound");
        }
        yield_to_controller(k, W::AtBegin, None);
    }

    fn cb_task_end(k: usize) {
        let mut c = CTL.lock().unwrap();
        c.w[k] = W::Done;
        if !c.free_run {
            c.turn = SPAWNER;
        }
        CV.notify_all();
    }

    // ---- spawner / controller side
    fn read_words(ptr: usize, words: usize) -> Vec<usize> {
        (0..words)
            .map(|i| unsafe { core::ptr::read_volatile((ptr + 8 * i) as *const usize) })
            .collect()
    }

    /// called by the controller while every worker is blocked: how far did the counter move?
    fn observe_counter(c: &mut Ctl, k: usize) {
        if c.iter_ptr == 0 || !modelled(c) {
            return;
        }
        let now = read_words(c.iter_ptr, c.iter_words);
        if c.counter_off.is_none() {
            let cand: Vec<usize> = (0..c.iter_words)
                .filter(|&i| c.snapshot[i] == 0 && now[i] != 0 && now[i] <= 4 * MAXN + (1 << 20))
                .collect();
            if cand.len() == 1 {
                c.counter_off = Some(cand[0]);
                c.last_counter = 0;
            } else {
                return;
            }
        }
        let cur = now[c.counter_off.unwrap()];
        let delta = cur.wrapping_sub(c.last_counter);
        c.last_counter = cur;
        let st = c.w[k];
        if c.matched[k] {
            if st == W::Done && cur >= c.n {
                c.skip_seen = true;
            }
        } else if delta > 0 && (st == W::AtProbe || st == W::Done) {
            let e = EXPECT_PULL.load(Ordering::SeqCst);
            if e != 0 && delta != e {
                BAD_PULL.store(true, Ordering::SeqCst);
            }
        }
    }

    fn cb_run_begin(len: Option<usize>, ptr: *const u8, size: usize) {
        let mut c = CTL.lock().unwrap();
        c.iter_ptr = ptr as usize;
        c.iter_words = size / 8;
        c.snapshot = read_words(ptr as usize, size / 8);
        c.counter_off = None;
        c.last_counter = 0;
        c.runs += 1;
        c.w = [W::NotSpawned; MAXT];
        c.matched = [false; MAXT];
        c.probe_pos = [None; MAXT];
        c.next_pos = 0;
        c.spawned = 0;
        c.free_run = false;
        c.cut = None;
        c.obs_k = 1; // the look preceding the first spawn sees 0
        c.turn = SPAWNER;
        c.claimed_by = [NOBODY; MAXN];
        if modelled(&c) {
            match len {
                Some(n) if n <= MAXN => c.n = n,
                None => {} // iterator-backed source of unknown length: the harness declared it in begin()
                _ => {
                    drop(c);
                    diverged("source length above the model bound")
                }
            }
        }
    }

    fn cb_scope_begin() {
        CTL.lock().unwrap().scopes += 1;
    }
    fn cb_scope_end() {}

    /// lets worker k run until it yields (probe / match / end); returns its new state
    fn resume(k: usize) -> W {
        let mut c = CTL.lock().unwrap();
        // a freshly spawned thread may not have reached its begin hook yet
        loop {
            if c.w[k] != W::NotSpawned {
                break;
            }
            let (g, to) = CV.wait_timeout(c, Duration::from_secs(20)).unwrap();
            c = g;
            if to.timed_out() && c.w[k] == W::NotSpawned {
                drop(c);
                diverged("a spawned worker never started");
            }
        }
        if c.w[k] == W::Done {
            return W::Done;
        }
        c.turn = k;
        CV.notify_all();
        loop {
            if c.turn == SPAWNER {
                break;
            }
            let (g, to) = CV.wait_timeout(c, Duration::from_secs(20)).unwrap();
            c = g;
            if to.timed_out() && c.turn != SPAWNER {
                drop(c);
                diverged("a worker did not come back to the controller within 20 s");
            }
        }
        observe_counter(&mut c, k);
        c.w[k]
    }

    /// A worker came back although the owner table gives it position `p`: that is an early exit which no
    /// predicate announced (`first()` has no predicate) if the counterexample's cut lies at or before `p`.
    fn early_exit_without_notice(p: usize) -> bool {
        let mut c = CTL.lock().unwrap();
        if c.cut.is_none() && c.cut_p <= p {
            c.cut = Some(c.cut_p);
            true
        } else {
            false
        }
    }

    /// advance the schedule until every position below `limit` (and below the cut) has been
    /// pulled by its owner
    fn drive(limit: usize) {
        let mut pending: Vec<usize> = vec![];
        loop {
            let (p, k, st, pp, is_matched, spawned) = {
                let c = CTL.lock().unwrap();
                let eff = limit.min(c.n).min(c.cut.unwrap_or(c.unclaimed_from));
                if c.next_pos >= eff {
                    break;
                }
                let p = c.next_pos;
                let k = c.owner[p] as usize;
                if k >= MAXT {
                    drop(c);
                    diverged("owner table names no worker for a position");
                }
                (p, k, c.w[k], c.probe_pos[k], c.matched[k], c.spawned)
            };
            if is_matched {
                // the rest of the matching worker's chunk is never looked at
                CTL.lock().unwrap().next_pos += 1;
                continue;
            }
            if k >= spawned {
                diverged(&format!("position {p} is owned by worker {k} which is not spawned yet"));
            }
            if st == W::Done {
                if early_exit_without_notice(p) {
                    continue;
                }
                diverged(&format!("worker {k} finished before pulling position {p}"));
            }
            let st = resume(k);
            match st {
                W::AtProbe => {
                    let mut c = CTL.lock().unwrap();
                    if let Some(q) = c.probe_pos[k] {
                        if q != p {
                            drop(c);
                            diverged(&format!("worker {k} reached position {q} where {p} was expected"));
                        }
                    }
                    let _ = pp;
                    c.claimed_by[p] = k as u8;
                    c.next_pos += 1;
                }
                W::AtMatch => {
                    let mut c = CTL.lock().unwrap();
                    if c.cut.is_none() {
                        c.cut = Some(c.cut_p);
                    }
                    pending.push(k);
                }
                W::Done => {
                    if !early_exit_without_notice(p) {
                        diverged(&format!("worker {k} finished before pulling position {p}"));
                    }
                }
                _ => diverged("unexpected worker state"),
            }
        }
        for k in pending {
            // the matching worker now publishes early exit and returns
            loop {
                match resume(k) {
                    W::Done => break,
                    W::AtProbe | W::AtMatch => continue,
                    _ => diverged("unexpected worker state after a match"),
                }
            }
        }
    }

    fn cb_spawned(k: usize) {
        let (is_modelled, target) = {
            let mut c = CTL.lock().unwrap();
            c.spawned = k + 1;
            if c.spawned > c.max_spawns {
                c.max_spawns = c.spawned;
            }
            let m = modelled(&c);
            let target = if !m {
                usize::MAX // unscheduled: each worker runs to completion when spawned
            } else {
                match c.obs_policy {
                    1 => 0,
                    2 => usize::MAX,
                    _ => {
                        let kk = c.obs_k.min(MAXOBS - 1);
                        c.obs_k += 1;
                        c.obs[kk] as usize
                    }
                }
            };
            (m, target)
        };
        if !is_modelled {
            // unscheduled: the drainer consumes the source; workers spawned before it stay blocked at their start
            // until it is done (so they find the source exhausted), later ones run to completion when spawned
            let d = DRAINER.load(Ordering::SeqCst);
            if k < d {
                return;
            }
            let mut order = vec![k];
            if k == d {
                order.extend(0..k);
            }
            for j in order {
                loop {
                    match resume(j) {
                        W::Done => break,
                        _ => continue,
                    }
                }
            }
            return;
        }
        if target == usize::MAX {
            // eager policy: everything the spawned workers own as a claimed prefix
            let lim = {
                let c = CTL.lock().unwrap();
                let mut p = c.next_pos;
                while p < c.n && (c.owner[p] as usize) < c.spawned {
                    p += 1;
                }
                p
            };
            drive(lim);
        } else {
            drive(target);
        }
    }

    fn cb_all_spawned() {
        let (m, spawned) = {
            let c = CTL.lock().unwrap();
            (modelled(&c), c.spawned)
        };
        if m {
            drive(usize::MAX);
            // every position is pulled; let the workers finish one after the other in spawn order - the order in
            // which the sequentialised model ran them (matters only if workers communicate outside the counter)
            for k in 0..spawned {
                loop {
                    match resume(k) {
                        W::Done => break,
                        _ => continue,
                    }
                }
            }
        }
        let mut c = CTL.lock().unwrap();
        c.free_run = true;
        c.iter_ptr = 0;
        CV.notify_all();
    }
}

pub mod native {
    #[cfg(kani)]
    pub fn replay_main() {}

    #[cfg(not(kani))]
    pub fn replay_main() {
        let arg = std::env::args().nth(1).expect("usage: replay '<json>'");
        let (name, vals) = parse(&arg);
        {
            let mut q = crate::kani::VALS.lock().unwrap();
            for v in vals {
                q.push_back(v);
            }
        }
        // watchdog: a schedule that cannot be realised must not hang the check
        std::thread::spawn(|| {
            std::thread::sleep(std::time::Duration::from_secs(90));
            println!("REPLAY-RESULT: invalid (replay did not finish within 90 s)");
            std::process::exit(3);
        });
        let r = std::panic::catch_unwind(|| crate::run_harness(&name));
        match r {
            Ok(true) => println!("REPLAY-RESULT: held"),
            Ok(false) => println!("REPLAY-RESULT: invalid (unknown harness {name})"),
            Err(e) => {
                let msg = e
                    .downcast_ref::<String>()
                    .cloned()
                    .or_else(|| e.downcast_ref::<&str>().map(|s| s.to_string()))
                    .unwrap_or_default();
                println!("REPLAY-RESULT: violated: {msg}");
            }
        }
        std::process::exit(0);
    }

    // minimal parser for {"harness": "name", "vals": [[1,2],[3]]}
    #[cfg(not(kani))]
    fn parse(s: &str) -> (String, Vec<Vec<u8>>) {
        let hi = s.find("\"harness\"").expect("harness key");
        let rest = &s[hi + 9..];
        let q1 = rest.find('"').unwrap();
        let q2 = rest[q1 + 1..].find('"').unwrap();
        let name = rest[q1 + 1..q1 + 1 + q2].to_string();
        let vi = s.find("\"vals\"").expect("vals key");
        let rest = &s[vi + 6..];
        let open = rest.find('[').unwrap();
        let mut vals = vec![];
        let mut cur: Option<Vec<u8>> = None;
        let mut num = String::new();
        let mut depth = 0;
        for ch in rest[open..].chars() {
            match ch {
                '[' => {
                    depth += 1;
                    if depth == 2 {
                        cur = Some(vec![]);
                    }
                }
                ']' => {
                    if depth == 2 {
                        if !num.is_empty() {
                            cur.as_mut().unwrap().push(num.parse().unwrap());
                            num.clear();
                        }
                        vals.push(cur.take().unwrap());
                    }
                    depth -= 1;
                    if depth == 0 {
                        break;
                    }
                }
                ',' => {
                    if depth == 2 && !num.is_empty() {
                        cur.as_mut().unwrap().push(num.parse().unwrap());
                        num.clear();
                    }
                }
                c if c.is_ascii_digit() => num.push(c),
                _ => {}
            }
        }
        (name, vals)
    }
}
