"""Pipeline DSL: renders one chain of transformations twice - through orx-parallel's `Par`
API and through std::iter adaptors - with textually identical closures, so that a harness can
assert `parallel result == std result` on symbolic input.

Item kinds:   ref = &u8 (slice sources)   val = u8   idx = usize (range source: positions)
The input array is always `a: [u8; N]`; `idx` closures look the value up in `a`.
Closures optionally record their calls (`bump(stage, tag)`) for the call-count properties.
"""

KT = {"ref": "&u8", "val": "u8", "idx": "usize"}


def deref(kind, x="x"):
    return {"ref": f"(*{x})", "val": x, "idx": f"a[{x}]"}[kind]


def fderef(kind, x="x"):
    # closure argument is a reference to the item
    return {"ref": f"(**{x})", "val": f"(*{x})", "idx": f"a[*{x}]"}[kind]


class Op:
    def __init__(self, kind, arg):
        self.kind = kind  # map | filter | filter_map | flat_map
        self.arg = arg

    def __repr__(self):
        return f"{self.kind}({self.arg})"


def M(k=1):
    return Op("map", k)


def F(bit=3):
    return Op("filter", bit)


def FM(bit=5):
    return Op("filter_map", bit)


def FL(shift=6):
    return Op("flat_map", shift)


# what each Par type is reached by (shortest chain)
TYPE_CHAINS = {
    "E": [],
    "M": [M(1)],
    "F": [F(3)],
    "MF": [M(1), F(3)],
    "FM": [FM(5)],
    "FMF": [FM(5), F(3)],
    "FL": [FL(6)],
    "FLF": [FL(6), F(3)],
}

# resulting Par type after applying op to a type (from src/par/*.rs); '!' = eager site
TRANSITIONS = {
    ("E", "map"): "M", ("E", "filter"): "F", ("E", "filter_map"): "FM", ("E", "flat_map"): "FL",
    ("M", "map"): "M", ("M", "filter"): "MF", ("M", "filter_map"): "FM", ("M", "flat_map"): "FL",
    ("F", "map"): "FM", ("F", "filter"): "F", ("F", "filter_map"): "FM", ("F", "flat_map"): "FL!",
    ("MF", "map"): "FM", ("MF", "filter"): "MF", ("MF", "filter_map"): "FM", ("MF", "flat_map"): "FL!",
    ("FM", "map"): "FM", ("FM", "filter"): "FMF", ("FM", "filter_map"): "FM", ("FM", "flat_map"): "FL!",
    ("FMF", "map"): "FM", ("FMF", "filter"): "FMF", ("FMF", "filter_map"): "FM", ("FMF", "flat_map"): "FL!",
    ("FL", "map"): "FL", ("FL", "filter"): "FLF", ("FL", "filter_map"): "FM!", ("FL", "flat_map"): "FL",
    ("FLF", "map"): "M!", ("FLF", "filter"): "FLF", ("FLF", "filter_map"): "FM!", ("FLF", "flat_map"): "FL!",
}


def par_type(ops):
    t = "E"
    eager = []
    for i, op in enumerate(ops):
        nt = TRANSITIONS[(t, op.kind)]
        if nt.endswith("!"):
            eager.append((t, op.kind, i))
            nt = nt[:-1]
        t = nt
    return t, eager


class Pipeline:
    """src: slice | vec | range | iter (a.iter() -> exact size) | iterf (filtered iterator ->
    unknown size, the filter keeps everything but hides the length) | deque (VecDeque)"""

    def __init__(self, src, ops, count_calls=False):
        self.src = src
        self.ops = list(ops)
        self.count_calls = count_calls

    def src_kind(self):
        return {"slice": "ref", "vec": "val", "range": "idx", "iter": "ref", "iterf": "ref",
                "deque": "ref", "iterv": "val", "itervf": "val", "sched": "val", "schedx": "val"}[self.src]

    def final_kind(self):
        k = self.src_kind()
        for op in self.ops:
            if op.kind != "filter":
                k = "val"
        return k

    def type(self):
        return par_type(self.ops)[0]

    def eager_sites(self):
        return par_type(self.ops)[1]

    # ---- sources
    def par_src(self):
        return {
            "slice": "(&a[..]).into_par()",
            "vec": "a.to_vec().into_par()",
            "range": "(0..a.len()).into_par()",
            "iter": "a.iter().par()",
            "iterf": "a.iter().filter(|_| true).par()",
            "iterv": "a.iter().copied().par()",
            "itervf": "a.iter().copied().filter(|_| true).par()",
            "deque": "dq.par()",
            # iterator-backed sources under the schedule model: unknown length / exact length
            "sched": "SchedIter::new(a, false).par()",
            "schedx": "SchedIter::new(a, true).par()",
        }[self.src]

    def seq_src(self):
        return {
            "slice": "a.iter()",
            "vec": "a.to_vec().into_iter()",
            "range": "(0..a.len())",
            "iter": "a.iter()",
            "iterf": "a.iter()",
            "iterv": "a.iter().copied()",
            "itervf": "a.iter().copied()",
            "deque": "a.iter()",
            "sched": "a.iter().copied()",
            "schedx": "a.iter().copied()",
        }[self.src]

    def known_len(self):
        return self.src in ("slice", "vec", "range", "iter", "iterv", "deque", "schedx")

    # ---- closures
    def probe(self, kind, filter_arg=False):
        """native-replay gate: the first closure called for each source element reports in"""
        if kind == "ref":
            return "probe_ref!(*x); " if filter_arg else "probe_ref!(x); "
        if kind == "idx":
            return "probe_idx!(*x); " if filter_arg else "probe_idx!(x); "
        return "probe_val!(); "

    def closure(self, op, kind, stage, first=False):
        bump = ""
        if op.kind == "filter":
            v = fderef(kind)
            pr = self.probe(kind, True) if first else ""
            if self.count_calls:
                bump = f"bump({stage}, {v}); "
            return f"move |x: &{KT[kind]}| {{ {pr}{bump}{v} & {1 << op.arg} == 0 }}"
        v = deref(kind)
        pr = self.probe(kind) if first else ""
        if self.count_calls:
            bump = f"bump({stage}, v); "
        if op.kind == "map":
            return f"move |x: {KT[kind]}| {{ {pr}let v: u8 = {v}; {bump}v.wrapping_add({8 * op.arg}) }}"
        if op.kind == "filter_map":
            return (f"move |x: {KT[kind]}| {{ {pr}let v: u8 = {v}; {bump}"
                    f"if v & {1 << op.arg} == 0 {{ Some(v ^ 0x10) }} else {{ None }} }}")
        if op.kind == "flat_map":
            return (f"move |x: {KT[kind]}| {{ {pr}let v: u8 = {v}; {bump}"
                    f"[v, v ^ 0x80].into_iter().take(((v >> {op.arg}) as usize).min(2)) }}")
        raise ValueError(op.kind)

    def chain(self, head, param_at=None, params="", probes=False):
        """param_at: None = params right after the source; k = after the k-th op"""
        s = head
        kind = self.src_kind()
        if param_at is None:
            s += params
        for i, op in enumerate(self.ops):
            s += f".{op.kind}({self.closure(op, kind, i, first=(i == 0 and probes))})"
            if op.kind != "filter":
                kind = "val"
            if param_at == i:
                s += params
        return s

    def par(self, params="", param_at=None):
        return self.chain(self.par_src(), param_at, params, probes=True)

    def seq(self):
        return self.chain(self.seq_src())

    def seq_single(self, elem_expr):
        """the chain applied to a one-element source holding position i's element"""
        head = {
            "ref": f"core::iter::once(&a[{elem_expr}])",
            "val": f"core::iter::once(a[{elem_expr}])",
            "idx": f"core::iter::once({elem_expr})",
        }[self.src_kind()]
        return self.chain(head)

    def descr(self):
        return f"{self.src}:" + ("." + ".".join(repr(o) for o in self.ops) if self.ops else "")


def params_str(t=None, c=None):
    s = ""
    if t is not None:
        s += f".num_threads({t})"
    if c is not None:
        s += f".chunk_size({c})"
    return s


def val_of(kind, x):
    """u8 value of an item expression of the given kind"""
    return deref(kind, x)


# ---------------------------------------------------------------- tagged pipelines (shape-enumerated harnesses)
class TaggedPipeline:
    """Items are pairs (tag: usize, value: u8): the tag is a CONCRETE position-derived number on which every
    filtering / fan-out decision is taken (so that the lengths of all intermediate vectors are constants for
    the symbolic executor), the value is symbolic and flows through every stage.
    counts[i] = number of outputs element i finally yields (0/1 for filtering chains, 0..2 with flat_map)."""

    def __init__(self, ty, counts, src="tslice", count_calls=False, fan_extra=1):
        self.count_calls = count_calls
        self.fan_extra = fan_extra  # how many items the flat_map yields beyond those the following filter keeps
        self.ty = ty
        self.counts = list(counts)
        self.src = src
        self.ops = [o.kind for o in TYPE_CHAINS[ty]]
        self.n = len(counts)

    def type(self):
        return self.ty

    def src_ref(self):
        return self.src in ("tslice", "titer", "titerf")  # tsched / tschedx yield pairs by value

    def decl(self):
        """input declaration: tags concrete, values symbolic"""
        n = self.n
        s = f"    let vals: [u8; {n}] = kani::any();\n"
        s += "    let a: [(usize, u8); %d] = [%s];\n" % (n, ", ".join(f"({i}, vals[{i}])" for i in range(n)))
        return s

    def par_src(self):
        return {"tslice": "(&a[..]).into_par()", "tvec": "a.to_vec().into_par()", "titer": "a.iter().par()",
                "titerf": "a.iter().filter(|_| true).par()",
                "tsched": "SchedIter::new(a, false).par()", "tschedx": "SchedIter::new(a, true).par()",
                "tcounting": "a.iter().map(|x: &(usize, u8)| { bump(4, x.0 as u8); *x }).par()"}[self.src]

    def seq_src(self):
        return {"tslice": "a.iter()", "tvec": "a.to_vec().into_iter()", "titer": "a.iter()", "titerf": "a.iter()",
                "tsched": "a.iter().copied()", "tschedx": "a.iter().copied()",
                "tcounting": "a.iter().map(|x: &(usize, u8)| { bump(4, x.0 as u8); *x })"}[self.src]

    def table(self, vals, ty="bool"):
        return "[" + ", ".join(str(v).lower() for v in vals) + "]"

    def closures(self, probes):
        """-> list of (method, closure text)"""
        out = []
        ref = self.src_ref()
        first = True
        n, c = self.n, self.counts
        has_fl = "flat_map" in self.ops
        filt_stages = [o for o in self.ops if o in ("filter", "filter_map")]
        for si, op in enumerate(self.ops):
            arg_t = "&(usize, u8)" if (ref and first) else "(usize, u8)"
            get = "let (t, v) = *x;" if (ref and first) else "let (t, v) = x;"
            pr = ""
            if probes and first:
                pr = "probe_ref!(x as *const (usize, u8) as *const u8); " if ref else "probe_val!(); "
            seen_fl = "flat_map" in self.ops[:si]
            bt = "(t / 8) as u8" if seen_fl else "t as u8"
            bx = "(x.0 / 8) as u8" if seen_fl else "x.0 as u8"
            bump = f" bump({si}, {bt});" if self.count_calls else ""
            bumpx = f"bump({si}, {bx}); " if self.count_calls else ""
            if op == "map":
                out.append(("map", f"move |x: {arg_t}| {{ {pr}{get}{bump} (t, v.wrapping_add(8)) }}"))
                first = False
            elif op == "filter":
                # the item is still a reference to the source element if nothing mapped it yet
                if ref and first:
                    keep = self.keep_table(si, filt_stages, per_output=False)
                    out.append(("filter", f"move |x: &&(usize, u8)| {{ {pr.replace('x as', '*x as')}{bumpx}{self.table(keep)}[x.0] }}"))
                else:
                    if has_fl:
                        # tags after flat_map are 4*pos + j
                        keep = []
                        for i in range(n):
                            # the flat_map yields min(c[i] + 1, 4) items, the filter keeps the LAST c[i] of them
                            f = min(c[i] + self.fan_extra, 4)
                            keep += [(f - c[i]) <= j < f for j in range(4)] + [False] * 4
                        out.append(("filter", f"move |x: &(usize, u8)| {{ {bumpx}{self.table(keep)}[x.0] }}"))
                    else:
                        keep = self.keep_table(si, filt_stages, per_output=False)
                        out.append(("filter", f"move |x: &(usize, u8)| {{ {bumpx}{self.table(keep)}[x.0] }}"))
            elif op == "filter_map":
                keep = self.keep_table(si, filt_stages, per_output=False)
                out.append(("filter_map", f"move |x: {arg_t}| {{ {pr}{get}{bump} if {self.table(keep)}[t] {{ Some((t, v ^ 0x10)) }} else {{ None }} }}"))
                first = False
            elif op == "flat_map":
                last = si == len(self.ops) - 1
                fan = c if last else [min(x + self.fan_extra, 4) for x in c]
                out.append(("flat_map", f"move |x: {arg_t}| {{ {pr}{get}{bump} [(8 * t, v), (8 * t + 1, v ^ 8), (8 * t + 2, v ^ 16), (8 * t + 3, v ^ 24)].into_iter().take({self.table(fan)}[t]) }}"))
                first = False
        return out

    def keep_table(self, si, filt_stages, per_output):
        """which filtering stage drops a dropped element: alternate by position parity when there are two"""
        n, c = self.n, self.counts
        my = [i for i, o in enumerate(self.ops) if o in ("filter", "filter_map")]
        k = my.index(si)
        keep = []
        for i in range(n):
            if c[i] >= 1:
                keep.append(True)
            elif len(my) == 1:
                keep.append(False)
            else:
                keep.append(not ((i % 2) == k))
        return keep

    def chain(self, head, params="", probes=False):
        s = head + params
        for m, cl in self.closures(probes):
            s += f".{m}({cl})"
        return s

    def par(self, params=""):
        return self.chain(self.par_src(), params, probes=True)

    def seq(self):
        return self.chain(self.seq_src())

    def final_is_ref(self):
        return self.src_ref() and all(o == "filter" for o in self.ops)

    def descr(self):
        return f"{self.src}:{self.ty} counts={self.counts}"
