// Schedule model + environment stubs shared by all generated harnesses.
// Included verbatim at the top of the generated harness crate (see check.py).
//
// The model replaces the three atomic operations that the concurrent iterator's position
// counter is accessed with (fetch_add = pull, load = has_more/try_get_len, fetch_max =
// skip_to_end) for the one AtomicUsize living inside the iterator object handed to
// Runner::run*; all other atomics keep their sequential semantics.
//
// Prophecy formulation: OWNER[pos] says which worker (by spawn index) claims position pos.
// A worker's pulls are then determined: its next claim starts at the first position at or
// after its previous claim that it owns.  OWNER is a symbolic array (scalar terminals) or a
// constant table (Vec-building terminals).  The constraints below keep exactly the tables and
// spawner observations that a linearisable counter can produce.

#[cfg(kani)]
pub mod model {
    use orx_concurrent_iter::ConcurrentIterX;
    use std::num::NonZeroUsize;
    use std::sync::atomic::{AtomicUsize, Ordering};

    pub const MAXN: usize = @MAXN@;
    pub const MAXT: usize = @MAXT@;
    pub const NOBODY: u8 = 255;

    // ---- configuration, set by the harness before the library is called
    /// schedule model on/off (off: atomics are sequential => "first worker drains all")
    pub static mut ACTIVE: bool = false;
    /// value returned by the stub of std::thread::available_parallelism
    pub static mut AVAILABLE: usize = 2;
    /// prophecy table: OWNER[pos] = spawn index of the worker that claims pos
    pub static mut OWNER: [u8; MAXN] = [0; MAXN];
    /// spawner observation policy: 0 = symbolic, 1 = lazy (sees nothing new), 2 = eager (sees all)
    pub static mut OBS_POLICY: u8 = 0;
    /// if non-zero: every pull must request exactly this many positions (C11)
    pub static mut EXPECT_PULL: usize = 0;
    /// which run (0-based count of Runner::run* calls) the OWNER table applies to;
    /// other runs of the same harness get the "first worker drains all" schedule
    pub static mut MODEL_RUN: usize = 0;
    /// prophecy of the spawning thread's observations (k-th look at the counter) and of the cut
    pub const MAXOBS: usize = 12;
    pub static mut OBS_P: [u8; MAXOBS] = [0; MAXOBS];
    pub static mut OBS_K: usize = 0;
    pub static mut CUT_P: u8 = 0;

    // ---- state
    pub static mut LEN: usize = 0;
    pub static mut CLAIMED: [bool; MAXN] = [false; MAXN];
    pub static mut CLAIMED_BY: [u8; MAXN] = [NOBODY; MAXN];
    pub static mut IS_END: [bool; MAXN + 1] = [false; MAXN + 1];
    pub static mut PHASE: u8 = 0; // 0 outside a scope, 1 spawner inside scope, 2 inside a task
    pub static mut THREAD: usize = 0; // spawn index of the running / next worker
    pub static mut LAST_END: usize = 0;
    pub static mut FLOOR: usize = 0; // counter value known to precede the running worker's spawn
    pub static mut PROGRESS: usize = 0;
    pub static mut FINISHED: bool = false;
    pub static mut CUT: usize = usize::MAX;
    pub static mut SKIPPED: [bool; MAXT] = [false; MAXT];

    // ---- observations for the properties
    pub static mut RUNS: usize = 0;
    pub static mut SCOPES: usize = 0;
    pub static mut SPAWNS: usize = 0; // spawns of the current run
    pub static mut MAX_SPAWNS: usize = 0; // max over runs
    pub static mut PULLS: usize = 0; // pulls on the modelled iterator, all runs
    pub static mut BAD_PULL_SIZE: bool = false;
    pub static mut PULL_AFTER_SKIP: bool = false;
    pub static mut PULL_AFTER_MATCH: bool = false;
    pub static mut MATCHED: [bool; MAXT] = [false; MAXT]; // set by harness predicates
    pub static mut FIRST_PULL_SIZE: [usize; MAXT] = [0; MAXT];
    pub static mut WORKER_LOAD: bool = false;

    fn is_iter(this: &AtomicUsize) -> bool {
        unsafe {
            let base = orx_parallel::verif::ITER_PTR;
            if base.is_null() {
                return false;
            }
            kani::mem::same_allocation(this as *const AtomicUsize as *const u8, base)
        }
    }

    fn modelled() -> bool {
        unsafe { ACTIVE && RUNS == MODEL_RUN + 1 }
    }

    pub fn on_run_begin<I: ConcurrentIterX>(iter: &I) {
        unsafe {
            orx_parallel::verif::ITER_PTR = iter as *const I as *const u8;
            RUNS += 1;
            FINISHED = false;
            PHASE = 0;
            THREAD = 0;
            SPAWNS = 0;
            PROGRESS = 0;
            OBS_K = 0;
            CUT = usize::MAX;
            let mut i = 0;
            while i < MAXN {
                CLAIMED[i] = false;
                CLAIMED_BY[i] = NOBODY;
                IS_END[i] = false;
                i += 1;
            }
            IS_END[MAXN] = false;
            if modelled() {
                match iter.try_get_initial_len() {
                    Some(n) => {
                        assert!(n <= MAXN, "VERIF-MODEL: length above model bound");
                        LEN = n;
                    }
                    None => assert!(false, "VERIF-MODEL: schedule model needs a known length"),
                }
            }
        }
    }

    pub fn on_scope_begin() {
        unsafe {
            PHASE = 1;
            SCOPES += 1;
        }
    }

    pub fn on_task_begin() {
        unsafe {
            PHASE = 2;
            LAST_END = 0;
            FLOOR = PROGRESS;
            SPAWNS += 1;
            if SPAWNS > MAX_SPAWNS {
                MAX_SPAWNS = SPAWNS;
            }
        }
    }

    pub fn on_task_end() {
        unsafe {
            PHASE = 1;
            THREAD += 1;
        }
    }

    /// All workers have run to completion: keep only complete schedules.
    pub fn on_all_spawned() {
        unsafe {
            if modelled() {
                let mut i = 0;
                while i < MAXN {
                    if i < LEN && i < CUT {
                        kani::assume(CLAIMED[i]);
                    }
                    i += 1;
                }
            }
            FINISHED = true;
        }
    }

    pub fn on_scope_end() {
        unsafe {
            PHASE = 0;
        }
    }

    // pull of `val` positions
    pub fn fetch_add(this: &AtomicUsize, val: usize, _o: Ordering) -> usize {
        unsafe {
            if modelled() && is_iter(this) {
                if PHASE != 2 {
                    // only workers pull
                    assert!(false, "VERIF-MODEL: pull outside a task");
                }
                PULLS += 1;
                if EXPECT_PULL != 0 && val != EXPECT_PULL {
                    BAD_PULL_SIZE = true;
                }
                if THREAD < MAXT {
                    if SKIPPED[THREAD] {
                        PULL_AFTER_SKIP = true;
                    }
                    if MATCHED[THREAD] {
                        PULL_AFTER_MATCH = true;
                    }
                    if FIRST_PULL_SIZE[THREAD] == 0 {
                        FIRST_PULL_SIZE[THREAD] = val;
                    }
                }
                let lo = if LAST_END > FLOOR { LAST_END } else { FLOOR };
                // first position >= lo owned by this worker
                let mut b = LEN;
                let mut i = MAXN;
                while i > 0 {
                    i -= 1;
                    if i >= lo && i < LEN && OWNER[i] as usize == THREAD {
                        b = i;
                    }
                }
                if b >= LEN || b >= CUT {
                    return LEN; // this worker sees the source exhausted
                }
                let e = if val < LEN - b { b + val } else { LEN };
                kani::assume(e <= CUT);
                let mut i = 0;
                while i < MAXN {
                    if i >= b && i < e {
                        kani::assume(OWNER[i] as usize == THREAD);
                        kani::assume(!CLAIMED[i]);
                        CLAIMED[i] = true;
                        CLAIMED_BY[i] = THREAD as u8;
                    }
                    i += 1;
                }
                // a claim starts where another one ended (or at 0)
                IS_END[e] = true;
                LAST_END = e;
                b
            } else {
                let p = this.as_ptr();
                let old = *p;
                *p = old.wrapping_add(val);
                old
            }
        }
    }

    fn claimed_prefix_boundary() -> usize {
        // largest p such that [0,p) is claimed and p is a claim boundary
        unsafe {
            let mut p = 0;
            let mut all = true;
            let mut i = 0;
            while i < MAXN {
                if i < LEN {
                    if !CLAIMED[i] {
                        all = false;
                    }
                    if all && IS_END[i + 1] {
                        p = i + 1;
                    }
                }
                i += 1;
            }
            p
        }
    }

    pub fn load(this: &AtomicUsize, _o: Ordering) -> usize {
        unsafe {
            if modelled() && is_iter(this) {
                if PHASE == 1 {
                    // the spawning thread looks at the counter
                    let p: usize = match OBS_POLICY {
                        1 => PROGRESS,
                        2 => claimed_prefix_boundary(),
                        _ => {
                            assert!(OBS_K < MAXOBS, "VERIF-MODEL: more spawner observations than modelled");
                            let p = OBS_P[OBS_K] as usize;
                            OBS_K += 1;
                            p
                        }
                    };
                    kani::assume(p >= PROGRESS && p <= LEN);
                    kani::assume(p == 0 || IS_END[p]);
                    let mut i = 0;
                    while i < MAXN {
                        if i < p {
                            kani::assume(CLAIMED[i]);
                        }
                        i += 1;
                    }
                    PROGRESS = p;
                    p
                } else if PHASE == 2 {
                    WORKER_LOAD = true;
                    assert!(false, "VERIF-MODEL: unmodelled load by a worker");
                    0
                } else if FINISHED {
                    LEN
                } else {
                    *this.as_ptr()
                }
            } else {
                *this.as_ptr()
            }
        }
    }

    // skip_to_end
    pub fn fetch_max(this: &AtomicUsize, val: usize, _o: Ordering) -> usize {
        unsafe {
            if modelled() && is_iter(this) {
                if PHASE != 2 {
                    assert!(false, "VERIF-MODEL: skip_to_end outside a task");
                }
                if THREAD < MAXT {
                    SKIPPED[THREAD] = true;
                }
                if CUT == usize::MAX {
                    let c: usize = CUT_P as usize;
                    kani::assume(c >= LAST_END && c <= LEN);
                    kani::assume(c == 0 || IS_END[c]);
                    let mut i = 0;
                    while i < MAXN {
                        if i >= c && i < LEN {
                            kani::assume(!CLAIMED[i]);
                        }
                        i += 1;
                    }
                    CUT = c;
                    c
                } else {
                    LEN
                }
            } else {
                let p = this.as_ptr();
                let old = *p;
                if val > old {
                    *p = val;
                }
                old
            }
        }
    }

    pub fn typed_swap<T>(a: &mut T, b: &mut T) {
        unsafe {
            let t = core::ptr::read(a);
            core::ptr::copy_nonoverlapping(b as *const T, a as *mut T, 1);
            core::ptr::write(b, t);
        }
    }

    pub fn no_lag() {}

    pub fn available_parallelism() -> std::io::Result<NonZeroUsize> {
        unsafe { Ok(NonZeroUsize::new(AVAILABLE).unwrap()) }
    }

    /// Switch the schedule model on for a source of `n` positions and `t` available threads.
    /// `owners`: None = symbolic owner table (any worker below `t` may own any position),
    /// Some(table) = that table.  All nondeterminism of the schedule is drawn here, up-front and
    /// in a fixed order (owner table, spawner observations, cut), so that a counterexample's
    /// concrete values can be fed to the native replay in the same order.
    pub fn begin(n: usize, t: usize, owners: Option<[u8; MAXN]>, obs_policy: u8) {
        unsafe {
            assert!(n <= MAXN && t <= MAXT);
            ACTIVE = true;
            AVAILABLE = t;
            OBS_POLICY = obs_policy;
            match owners {
                Some(tab) => OWNER = tab,
                None => {
                    let tab: [u8; MAXN] = kani::any();
                    let mut i = 0;
                    while i < MAXN {
                        if i < n {
                            kani::assume((tab[i] as usize) < t);
                        }
                        i += 1;
                    }
                    OWNER = tab;
                }
            }
            let obs: [u8; MAXOBS] = kani::any();
            OBS_P = obs;
            CUT_P = kani::any();
        }
    }


    pub fn owners_from(t: &[u8]) -> [u8; MAXN] {
        let mut tab = [NOBODY; MAXN];
        let mut i = 0;
        while i < MAXN {
            if i < t.len() {
                tab[i] = t[i];
            }
            i += 1;
        }
        tab
    }

    /// value reported by std::thread::available_parallelism (without touching the schedule model)
    pub fn set_available(k: usize) {
        unsafe {
            AVAILABLE = k;
        }
    }

    /// no schedule model: atomics keep their sequential meaning, i.e. the first worker drains
    /// the source and later workers come back empty
    pub fn begin_unscheduled(t: usize) {
        unsafe {
            ACTIVE = false;
            AVAILABLE = t;
        }
    }

    // ---- observation points used inside harness closures (gates in the native replay)
    #[inline(always)]
    pub fn probe(_pos: usize) {}
    pub fn matched() {
        unsafe {
            if PHASE == 2 && THREAD < MAXT {
                MATCHED[THREAD] = true;
            }
        }
    }

    // ---- accessors (same API natively)
    pub fn scopes() -> usize { unsafe { SCOPES } }
    pub fn runs() -> usize { unsafe { RUNS } }
    pub fn max_spawns() -> usize { unsafe { MAX_SPAWNS } }
    pub fn pulls() -> usize { unsafe { PULLS } }
    pub fn bad_pull_size() -> bool { unsafe { BAD_PULL_SIZE } }
    pub fn pull_after_skip() -> bool { unsafe { PULL_AFTER_SKIP } }
    pub fn pull_after_match() -> bool { unsafe { PULL_AFTER_MATCH } }
    pub fn cut() -> usize { unsafe { CUT } }
    pub fn claimed_by(pos: usize) -> u8 { unsafe { CLAIMED_BY[pos] } }
    pub fn expect_pull(c: usize) { unsafe { EXPECT_PULL = c; } }
    pub fn model_run(k: usize) { unsafe { MODEL_RUN = k; } }
    pub fn any_matched() -> bool {
        unsafe {
            let mut i = 0;
            let mut r = false;
            while i < MAXT { r |= MATCHED[i]; i += 1; }
            r
        }
    }
    pub fn any_skipped() -> bool {
        unsafe {
            let mut i = 0;
            let mut r = false;
            while i < MAXT { r |= SKIPPED[i]; i += 1; }
            r
        }
    }
}
