// Schedule model + environment stubs shared by all generated harnesses.
// Included verbatim at the top of the generated harness crate (see check.py).
//
// The model replaces the three atomic operations that the concurrent iterator's position
// counter is accessed with (fetch_add = pull, load = has_more/try_get_len, fetch_max =
// skip_to_end) for the one AtomicUsize living inside the iterator object handed to
// Runner::run*; all other atomics keep their sequential semantics.
//
// Prophecy formulation: S.OWNER[pos] says which worker (by spawn index) claims position pos.
// A worker's pulls are then determined: its next claim starts at the first position at or
// after its previous claim that it owns.  S.OWNER is a symbolic array (scalar terminals) or a
// constant table (Vec-building terminals).  The constraints below keep exactly the tables and
// spawner observations that a linearisable counter can produce.

#[cfg(kani)]
pub mod model {
    use orx_concurrent_iter::ConcurrentIterX;
    use std::num::NonZeroUsize;
    use std::sync::atomic::{AtomicUsize, Ordering};

    pub const MAXN: usize = @MAXN@;
    pub const MAXT: usize = @MAXT@;
    pub const NOBODY: u8 = 255;


    // All model state lives in ONE static with a distinctive first field.  Reason (measured, see
    // DESIGN.md): Kani backs constants such as alloc::raw_vec::ZERO_CAP by any existing global whose
    // initial bytes are identical - a lone `static mut THREAD: usize = 0` became the storage of
    // ZERO_CAP, so that Vec::new() read capacity 2 once two workers had run.
    pub struct St {
        pub magic: u64,
        pub ACTIVE: bool,
        pub AVAILABLE: usize,
        pub OWNER: [u8; MAXN],
        pub OBS_POLICY: u8,
        pub EXPECT_PULL: usize,
        pub MODEL_RUN: usize,
        pub OBS_P: [u8; MAXOBS],
        pub OBS_K: usize,
        pub CUT_P: u8,
        pub UNCLAIMED_FROM: usize,
        pub DRAIN_MODE: bool,
        pub DECLARED_LEN: usize,
        pub COUNTER_PTR: *const AtomicUsize,
        pub PULL_OK: bool,
        pub NEXT_POS: usize,
        pub END_POS: usize,
        pub DRAINER: usize,
        pub LEN: usize,
        pub CLAIMED: [bool; MAXN],
        pub CLAIMED_BY: [u8; MAXN],
        pub IS_END: [bool; MAXN + 1],
        pub PHASE: u8,
        pub THREAD: usize,
        pub LAST_END: usize,
        pub FLOOR: usize,
        pub PROGRESS: usize,
        pub FINISHED: bool,
        pub CUT: usize,
        pub SKIPPED: u32,
        pub RUNS: usize,
        pub SCOPES: usize,
        pub SPAWNS: usize,
        pub MAX_SPAWNS: usize,
        pub PULLS: usize,
        pub BAD_PULL_SIZE: bool,
        pub PULL_AFTER_SKIP: bool,
        pub PULL_AFTER_MATCH: bool,
        pub MATCHED: u32,
        pub WORKER_LOAD: bool,
    }
    pub static mut S: St = St {
        magic: 0x5eed_c0de_0bad_f00d,
        ACTIVE: false,
        AVAILABLE: 2,
        OWNER: [0; MAXN],
        OBS_POLICY: 0,
        EXPECT_PULL: 0,
        MODEL_RUN: 0,
        OBS_P: [0; MAXOBS],
        OBS_K: 0,
        CUT_P: 0,
        UNCLAIMED_FROM: usize::MAX,
        DRAIN_MODE: false,
        DECLARED_LEN: 0,
        COUNTER_PTR: core::ptr::null(),
        PULL_OK: false,
        NEXT_POS: 0,
        END_POS: 0,
        DRAINER: 0,
        LEN: 0,
        CLAIMED: [false; MAXN],
        CLAIMED_BY: [NOBODY; MAXN],
        IS_END: [false; MAXN + 1],
        PHASE: 0,
        THREAD: 0,
        LAST_END: 0,
        FLOOR: 0,
        PROGRESS: 0,
        FINISHED: false,
        CUT: usize::MAX,
        SKIPPED: 0,
        RUNS: 0,
        SCOPES: 0,
        SPAWNS: 0,
        MAX_SPAWNS: 0,
        PULLS: 0,
        BAD_PULL_SIZE: false,
        PULL_AFTER_SKIP: false,
        PULL_AFTER_MATCH: false,
        MATCHED: 0,
        WORKER_LOAD: false,
    };

    /// prophecy of the spawning thread's observations (k-th look at the counter) and of the cut
    pub const MAXOBS: usize = 12;

    // ---- state

    // ---- observations for the properties

    fn is_iter(this: &AtomicUsize) -> bool {
        unsafe {
            let base = orx_parallel::verif::RUN.iter;
            if base.is_null() {
                return false;
            }
            kani::mem::same_allocation(this as *const AtomicUsize as *const u8, base)
        }
    }

    fn modelled() -> bool {
        unsafe { S.ACTIVE && S.RUNS == S.MODEL_RUN + 1 }
    }

    pub fn on_run_begin<I: ConcurrentIterX>(iter: &I) {
        unsafe {
            orx_parallel::verif::RUN.iter = iter as *const I as *const u8;
            S.RUNS += 1;
            S.FINISHED = false;
            S.PHASE = 0;
            S.THREAD = 0;
            S.SPAWNS = 0;
            S.PROGRESS = 0;
            S.OBS_K = 0;
            S.CUT = usize::MAX;
            S.COUNTER_PTR = core::ptr::null();
            S.PULL_OK = false;
            S.NEXT_POS = 0;
            S.END_POS = 0;
            let mut i = 0;
            while i < MAXN {
                S.CLAIMED[i] = false;
                S.CLAIMED_BY[i] = NOBODY;
                S.IS_END[i] = false;
                i += 1;
            }
            S.IS_END[MAXN] = false;
            if modelled() {
                match iter.try_get_initial_len() {
                    Some(n) => {
                        assert!(n <= MAXN, "VERIF-MODEL: length above model bound");
                        S.LEN = n;
                    }
                    // iterator-backed source of unknown length: the harness declared how many items it yields
                    None => S.LEN = S.DECLARED_LEN,
                }
            }
        }
    }

    pub fn on_scope_begin() {
        unsafe {
            S.PHASE = 1;
            S.SCOPES += 1;
        }
    }

    pub fn on_task_begin() {
        unsafe {
            S.PHASE = 2;
            S.LAST_END = 0;
            S.FLOOR = S.PROGRESS;
            S.SPAWNS += 1;
            if S.SPAWNS > S.MAX_SPAWNS {
                S.MAX_SPAWNS = S.SPAWNS;
            }
        }
    }

    pub fn on_task_end() {
        unsafe {
            S.PHASE = 1;
            S.THREAD += 1;
        }
    }

    /// All workers have run to completion: keep only complete schedules.
    pub fn on_all_spawned() {
        unsafe {
            if modelled() {
                let mut i = 0;
                while i < MAXN {
                    // after an early exit the counter value at the skip says it all: everything below the cut was
                    // claimed; without one, everything below the (prophesied) unclaimed tail
                    let lim = if S.CUT != usize::MAX { S.CUT } else { S.UNCLAIMED_FROM };
                    if i < S.LEN && i < lim {
                        kani::assume(S.CLAIMED[i]);
                    }
                    i += 1;
                }
            }
            if S.DRAIN_MODE {
                // the drainer must exist: somebody consumes the source
                kani::assume(S.DRAINER < S.SPAWNS);
            }
            S.FINISHED = true;
        }
    }

    pub fn on_scope_end() {
        unsafe {
            S.PHASE = 0;
        }
    }

    // pull of `val` positions
    pub fn fetch_add(this: &AtomicUsize, val: usize, _o: Ordering) -> usize {
        unsafe {
            if modelled() && is_iter(this) {
                if S.PHASE != 2 {
                    // only workers pull
                    assert!(false, "VERIF-MODEL: pull outside a task");
                }
                S.PULLS += 1;
                if S.EXPECT_PULL != 0 && val != S.EXPECT_PULL {
                    S.BAD_PULL_SIZE = true;
                }
                if S.THREAD < 32 {
                    if S.SKIPPED & (1u32 << S.THREAD) != 0 {
                        S.PULL_AFTER_SKIP = true;
                    }
                    if S.MATCHED & (1u32 << S.THREAD) != 0 {
                        S.PULL_AFTER_MATCH = true;
                    }
                }
                let lo = if S.LAST_END > S.FLOOR { S.LAST_END } else { S.FLOOR };
                // first position >= lo owned by this worker
                let mut b = S.LEN;
                let mut i = MAXN;
                while i > 0 {
                    i -= 1;
                    if i >= lo && i < S.LEN && i < S.UNCLAIMED_FROM && S.OWNER[i] as usize == S.THREAD {
                        b = i;
                    }
                }
                S.COUNTER_PTR = this as *const AtomicUsize;
                S.PULL_OK = false;
                if b >= S.LEN || b >= S.CUT {
                    // nothing left that this worker owns: it sees the source exhausted - which a real counter only
                    // reports once every position is claimed or early exit was published
                    kani::assume(S.UNCLAIMED_FROM >= S.LEN || S.CUT != usize::MAX);
                    return S.LEN;
                }
                let e = if val < S.LEN - b { b + val } else { S.LEN };
                kani::assume(e <= S.CUT);
                let mut i = 0;
                while i < MAXN {
                    if i >= b && i < e {
                        kani::assume(S.OWNER[i] as usize == S.THREAD);
                        kani::assume(!S.CLAIMED[i]);
                        S.CLAIMED[i] = true;
                        S.CLAIMED_BY[i] = S.THREAD as u8;
                    }
                    i += 1;
                }
                // a claim starts where another one ended (or at 0)
                S.IS_END[e] = true;
                S.LAST_END = e;
                S.PULL_OK = true;
                S.NEXT_POS = b;
                S.END_POS = e;
                b
            } else if starved() && is_iter(this) {
                // a worker that only runs after the source is exhausted: its position / ticket lies beyond everything
                usize::MAX / 2
            } else {
                let p = this.as_ptr();
                let old = *p;
                *p = old.wrapping_add(val);
                old
            }
        }
    }

    fn claimed_prefix_boundary() -> usize {
        // largest p such that [0,p) is claimed and p is a claim boundary
        unsafe {
            let mut p = 0;
            let mut all = true;
            let mut i = 0;
            while i < MAXN {
                if i < S.LEN {
                    if !S.CLAIMED[i] {
                        all = false;
                    }
                    if all && S.IS_END[i + 1] {
                        p = i + 1;
                    }
                }
                i += 1;
            }
            p
        }
    }

    pub fn load(this: &AtomicUsize, _o: Ordering) -> usize {
        unsafe {
            if modelled() && is_iter(this) {
                let other = !S.COUNTER_PTR.is_null() && !core::ptr::eq(this as *const AtomicUsize, S.COUNTER_PTR);
                if other && S.PHASE != 1 {
                    // ConIterOfIter::yielded_counter outside the spawn loop: COMPLETED once the run is over
                    return if S.FINISHED { usize::MAX } else { 0 };
                }
                if S.PHASE == 1 {
                    // the spawning thread looks at the counter
                    let p: usize = match S.OBS_POLICY {
                        1 => S.PROGRESS,
                        2 => claimed_prefix_boundary(),
                        _ => {
                            assert!(S.OBS_K < MAXOBS, "VERIF-MODEL: more spawner observations than modelled");
                            let p = S.OBS_P[S.OBS_K] as usize;
                            S.OBS_K += 1;
                            p
                        }
                    };
                    kani::assume(p >= S.PROGRESS && p <= S.LEN);
                    kani::assume(p == 0 || S.IS_END[p]);
                    let mut i = 0;
                    while i < MAXN {
                        if i < p {
                            kani::assume(S.CLAIMED[i]);
                        }
                        i += 1;
                    }
                    S.PROGRESS = p;
                    if other {
                        // "is the source completed?" - it is once everything has been handed out
                        return if p >= S.LEN { usize::MAX } else { 0 };
                    }
                    p
                } else if S.PHASE == 2 {
                    S.WORKER_LOAD = true;
                    assert!(false, "VERIF-MODEL: unmodelled load by a worker");
                    0
                } else if S.FINISHED {
                    S.LEN
                } else {
                    *this.as_ptr()
                }
            } else {
                *this.as_ptr()
            }
        }
    }

    // skip_to_end
    pub fn fetch_max(this: &AtomicUsize, val: usize, _o: Ordering) -> usize {
        unsafe {
            if modelled() && is_iter(this) {
                if S.PHASE != 2 {
                    assert!(false, "VERIF-MODEL: skip_to_end outside a task");
                }
                if S.THREAD < 32 {
                    S.SKIPPED |= 1u32 << S.THREAD;
                }
                if S.CUT == usize::MAX {
                    let c: usize = S.CUT_P as usize;
                    kani::assume(c >= S.LAST_END && c <= S.LEN);
                    // (that c is a claim boundary follows at the end: no claim crosses it and everything below it gets claimed -
                // requiring it NOW would lose the runs in which a later-modelled worker claimed up to c before this skip)
                    let mut i = 0;
                    while i < MAXN {
                        if i >= c && i < S.LEN {
                            kani::assume(!S.CLAIMED[i]);
                        }
                        i += 1;
                    }
                    S.CUT = c;
                    c
                } else {
                    S.LEN
                }
            } else {
                let p = this.as_ptr();
                let old = *p;
                if val > old {
                    *p = val;
                }
                old
            }
        }
    }

    fn skip_model() {
        unsafe {
            if S.THREAD < 32 {
                S.SKIPPED |= 1u32 << S.THREAD;
            }
            if S.CUT == usize::MAX {
                let c: usize = S.CUT_P as usize;
                kani::assume(c >= S.LAST_END && c <= S.LEN);
                // (that c is a claim boundary follows at the end: no claim crosses it and everything below it gets claimed -
                // requiring it NOW would lose the runs in which a later-modelled worker claimed up to c before this skip)
                let mut i = 0;
                while i < MAXN {
                    if i >= c && i < S.LEN {
                        kani::assume(!S.CLAIMED[i]);
                    }
                    i += 1;
                }
                S.CUT = c;
            }
        }
    }

    /// skip_to_end of iterator-backed sources is a store of COMPLETED
    pub fn store_usize(this: &AtomicUsize, val: usize, _o: Ordering) {
        unsafe {
            if modelled() && S.PHASE == 2 && is_iter(this) {
                skip_model();
            } else {
                *this.as_ptr() = val;
            }
        }
    }

    fn is_iter_u8(this: &std::sync::atomic::AtomicU8) -> bool {
        unsafe {
            let base = orx_parallel::verif::RUN.iter;
            !base.is_null() && kani::mem::same_allocation(this as *const std::sync::atomic::AtomicU8 as *const u8, base)
        }
    }

    pub fn store_u8(this: &std::sync::atomic::AtomicU8, val: u8, _o: Ordering) {
        unsafe {
            if modelled() && S.PHASE == 2 && is_iter_u8(this) {
                skip_model();
            } else {
                *this.as_ptr() = val;
            }
        }
    }

    /// ConIterOfIterX::is_mutating read by try_get_len: COMPLETED (2) once everything has been handed out
    pub fn load_u8(this: &std::sync::atomic::AtomicU8, _o: Ordering) -> u8 {
        unsafe {
            if modelled() && is_iter_u8(this) {
                if S.PHASE == 1 {
                    let p: usize = match S.OBS_POLICY {
                        1 => S.PROGRESS,
                        2 => claimed_prefix_boundary(),
                        _ => {
                            assert!(S.OBS_K < MAXOBS, "VERIF-MODEL: more spawner observations than modelled");
                            let p = S.OBS_P[S.OBS_K] as usize;
                            S.OBS_K += 1;
                            p
                        }
                    };
                    kani::assume(p >= S.PROGRESS && p <= S.LEN);
                    kani::assume(p == 0 || S.IS_END[p]);
                    let mut i = 0;
                    while i < MAXN {
                        if i < p {
                            kani::assume(S.CLAIMED[i]);
                        }
                        i += 1;
                    }
                    S.PROGRESS = p;
                    return if p >= S.LEN { 2 } else { 0 };
                }
                if S.PHASE == 0 && S.FINISHED {
                    return 2;
                }
                if S.PHASE == 2 {
                    assert!(false, "VERIF-MODEL: unmodelled load by a worker");
                }
            }
            *this.as_ptr()
        }
    }

    /// the item the underlying iterator of a modelled iterator-backed source yields now: the next position of
    /// the pull in progress (None past its end); None if no modelled pull is in progress (plain sequential use)
    pub fn sched_pos() -> Option<Option<usize>> {
        unsafe {
            if modelled() && S.PHASE == 2 {
                if S.PULL_OK && S.NEXT_POS < S.END_POS {
                    let p = S.NEXT_POS;
                    S.NEXT_POS += 1;
                    Some(Some(p))
                } else {
                    Some(None)
                }
            } else {
                None
            }
        }
    }

    pub fn typed_swap<T>(a: &mut T, b: &mut T) {
        unsafe {
            let t = core::ptr::read(a);
            core::ptr::copy_nonoverlapping(b as *const T, a as *mut T, 1);
            core::ptr::write(b, t);
        }
    }

    pub fn no_lag() {}

    pub fn available_parallelism() -> std::io::Result<NonZeroUsize> {
        unsafe { Ok(NonZeroUsize::new(S.AVAILABLE).unwrap()) }
    }

    /// Switch the schedule model on for a source of `n` positions and `t` available threads.
    /// `owners`: None = symbolic owner table (any worker below `t` may own any position),
    /// Some(table) = that table.  All nondeterminism of the schedule is drawn here, up-front and
    /// in a fixed order (owner table, spawner observations, cut), so that a counterexample's
    /// concrete values can be fed to the native replay in the same order.
    pub fn begin(n: usize, t: usize, owners: Option<[u8; MAXN]>, obs_policy: u8) {
        unsafe {
            assert!(n <= MAXN && t <= 32);
            S.ACTIVE = true;
            S.AVAILABLE = t;
            S.DECLARED_LEN = n;
            S.OBS_POLICY = obs_policy;
            match owners {
                Some(tab) => S.OWNER = tab,
                None => {
                    let tab: [u8; MAXN] = kani::any();
                    let mut i = 0;
                    while i < MAXN {
                        if i < n {
                            kani::assume((tab[i] as usize) < t);
                        }
                        i += 1;
                    }
                    S.OWNER = tab;
                }
            }
            let obs: [u8; MAXOBS] = kani::any();
            S.OBS_P = obs;
            S.CUT_P = kani::any();
            // prophecy: positions from UNCLAIMED_FROM on are never claimed by anybody.  In a correct run every
            // worker pulls until a pull fails, so this is LEN; a worker that stops pulling early (a bug) makes
            // shorter values feasible, and the lost elements then show up in the harness' assertion instead of
            // being assumed away.  Symbolic for symbolic owner tables, LEN for fixed tables (there the final
            // reachability witness guards against a vacuous pass).
            let u: u8 = kani::any();
            if owners.is_none() {
                kani::assume((u as usize) <= n);
                S.UNCLAIMED_FROM = u as usize;
            } else {
                S.UNCLAIMED_FROM = n;
            }
        }
    }


    pub fn owners_from(t: &[u8]) -> [u8; MAXN] {
        let mut tab = [NOBODY; MAXN];
        let mut i = 0;
        while i < MAXN {
            if i < t.len() {
                tab[i] = t[i];
            }
            i += 1;
        }
        tab
    }

    /// value reported by std::thread::available_parallelism (without touching the schedule model)
    pub fn set_available(k: usize) {
        unsafe {
            S.AVAILABLE = k;
        }
    }

    /// no schedule model: atomics keep their sequential meaning, i.e. the first worker drains
    /// the source and later workers come back empty
    /// Without the schedule model the source is consumed by ONE worker (the "drainer", symbolic spawn index);
    /// workers spawned before it are scheduled so late that they find the source exhausted (for iterator-backed
    /// sources: their attempts to get the handle see COMPLETED), workers spawned after it find it exhausted anyway.
    pub fn begin_unscheduled(t: usize) {
        unsafe {
            S.ACTIVE = false;
            S.AVAILABLE = t;
            S.DRAIN_MODE = true;
            let d: u8 = kani::any();
            kani::assume((d as usize) < t);
            S.DRAINER = d as usize;
        }
    }

    /// as begin_unscheduled, with a fixed drainer (Vec-building harnesses: keeps every vector length a constant)
    pub fn begin_drain(t: usize, d: usize) {
        unsafe {
            assert!(d < t);
            S.ACTIVE = false;
            S.AVAILABLE = t;
            S.DRAIN_MODE = true;
            S.DRAINER = d;
        }
    }

    fn starved() -> bool {
        unsafe { S.DRAIN_MODE && S.PHASE == 2 && S.THREAD < S.DRAINER }
    }

    pub fn cmpxchg_usize(this: &AtomicUsize, current: usize, new: usize, _s: Ordering, _f: Ordering) -> Result<usize, usize> {
        unsafe {
            if modelled() && S.PHASE == 2 && is_iter(this) {
                // ConIterOfIter's ticket lock on yielded_counter (IS_MUTATING = MAX-1, COMPLETED = MAX): the model hands
                // positions out by the owner table, so the handle is free exactly when the preceding pull obtained one
                if new == usize::MAX - 1 {
                    return if S.PULL_OK { Ok(current) } else { Err(usize::MAX) };
                }
                return Ok(current); // release
            }
            if starved() && is_iter(this) {
                return Err(usize::MAX); // ConIterOfIter: COMPLETED
            }
            let p = this.as_ptr();
            let old = *p;
            if old == current {
                *p = new;
                Ok(old)
            } else {
                Err(old)
            }
        }
    }

    pub fn cmpxchg_u8(this: &std::sync::atomic::AtomicU8, current: u8, new: u8, _s: Ordering, _f: Ordering) -> Result<u8, u8> {
        unsafe {
            let base = orx_parallel::verif::RUN.iter;
            if modelled() && S.PHASE == 2 && !base.is_null()
                && kani::mem::same_allocation(this as *const std::sync::atomic::AtomicU8 as *const u8, base)
            {
                // ConIterOfIterX's spin lock (AVAILABLE 0, IS_MUTATING 1, COMPLETED 2)
                if current == 0 && new == 1 {
                    return if S.PULL_OK { Ok(0) } else { Err(2) };
                }
                return Ok(current); // release
            }
            if starved() && !base.is_null()
                && kani::mem::same_allocation(this as *const std::sync::atomic::AtomicU8 as *const u8, base)
            {
                return Err(2); // ConIterOfIterX: COMPLETED
            }
            let p = this.as_ptr();
            let old = *p;
            if old == current {
                *p = new;
                Ok(old)
            } else {
                Err(old)
            }
        }
    }

    // ---- observation points used inside harness closures (gates in the native replay)
    #[inline(always)]
    pub fn probe(_pos: usize) {}
    pub fn matched() {
        unsafe {
            if S.PHASE == 2 && S.THREAD < 32 {
                S.MATCHED |= 1u32 << S.THREAD;
            }
        }
    }

    // ---- accessors (same API natively)
    pub fn drainer() -> usize { unsafe { S.DRAINER } }
    pub fn scopes() -> usize { unsafe { S.SCOPES } }
    pub fn runs() -> usize { unsafe { S.RUNS } }
    pub fn max_spawns() -> usize { unsafe { S.MAX_SPAWNS } }
    pub fn pulls() -> usize { unsafe { S.PULLS } }
    pub fn bad_pull_size() -> bool { unsafe { S.BAD_PULL_SIZE } }
    pub fn pull_after_skip() -> bool { unsafe { S.PULL_AFTER_SKIP } }
    pub fn pull_after_match() -> bool { unsafe { S.PULL_AFTER_MATCH } }
    pub fn cut() -> usize { unsafe { S.CUT } }
    pub fn claimed_by(pos: usize) -> u8 { unsafe { S.CLAIMED_BY[pos] } }
    pub fn expect_pull(c: usize) { unsafe { S.EXPECT_PULL = c; } }
    pub fn model_run(k: usize) { unsafe { S.MODEL_RUN = k; } }
    pub fn any_matched() -> bool {
        unsafe { S.MATCHED != 0 }
    }
    pub fn any_skipped() -> bool {
        unsafe { S.SKIPPED != 0 }
    }
}
