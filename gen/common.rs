// ---- shared by all harnesses (both compilation modes)
use orx_parallel::prelude::*;
use orx_parallel::*;
use std::collections::VecDeque;
use std::num::NonZeroUsize;
use std::sync::atomic::{AtomicBool, AtomicU8, Ordering as AO};

macro_rules! probe_ref {
    ($x:expr) => {
        #[cfg(not(kani))]
        {
            model::probe_addr($x as *const u8 as usize);
        }
    };
}
macro_rules! probe_idx {
    ($x:expr) => {
        #[cfg(not(kani))]
        {
            model::probe(Some($x));
        }
    };
}
macro_rules! probe_val {
    () => {
        #[cfg(not(kani))]
        {
            model::probe(None);
        }
    };
}

// call counters: CALLS[stage][tag] during the library run, EXP[stage][tag] during the oracle run
const Z8: AtomicU8 = AtomicU8::new(0);
const ZROW: [AtomicU8; 8] = [Z8; 8];
pub static CALLS: [[AtomicU8; 8]; 5] = [ZROW; 5];
pub static EXP: [[AtomicU8; 8]; 5] = [ZROW; 5];
pub static ORACLE: AtomicBool = AtomicBool::new(false);

/// record one call of the closure of `stage` on the element tagged `v & 7`
pub static LAST_TAG: [AtomicU8; 5] = [Z8; 5];
pub static ORDER_BAD: AtomicBool = AtomicBool::new(false);
pub fn bump(stage: usize, v: u8) {
    let t = (v & 7) as usize;
    if ORACLE.load(AO::Relaxed) {
        EXP[stage][t].fetch_add(1, AO::Relaxed);
    } else {
        CALLS[stage][t].fetch_add(1, AO::Relaxed);
        // source order of the arguments of each stage (meaningful in sequential mode only)
        if (t as u8) < LAST_TAG[stage].load(AO::Relaxed) {
            ORDER_BAD.store(true, AO::Relaxed);
        }
        LAST_TAG[stage].store(t as u8, AO::Relaxed);
    }
}
pub fn order_ok() -> bool {
    !ORDER_BAD.load(AO::Relaxed)
}
pub fn calls(stage: usize, t: usize) -> u8 {
    CALLS[stage][t].load(AO::Relaxed)
}
pub fn exp(stage: usize, t: usize) -> u8 {
    EXP[stage][t].load(AO::Relaxed)
}
pub fn total_calls() -> usize {
    let mut s = 0usize;
    let mut i = 0;
    while i < 5 {
        let mut j = 0;
        while j < model::MAXN {
            s += CALLS[i][j].load(AO::Relaxed) as usize;
            j += 1;
        }
        i += 1;
    }
    s
}
/// input whose low three bits are the position tag, the rest symbolic
pub fn tagged<const N: usize>(r: [u8; N]) -> [u8; N] {
    let mut a = [0u8; N];
    let mut i = 0;
    while i < N {
        a[i] = (r[i] & 0xF8) | (i as u8);
        i += 1;
    }
    a
}

// drop-observing item type
const ZD: AtomicU8 = AtomicU8::new(0);
pub const DROP_SLOTS: usize = 3 * @MAXN@ + 2;
pub static DROPS: [AtomicU8; DROP_SLOTS] = [ZD; DROP_SLOTS];
pub static NEXT_ID: AtomicU8 = AtomicU8::new(0);
pub struct D {
    pub id: u8,
    pub val: u8,
}
impl D {
    pub fn new(val: u8) -> D {
        let id = NEXT_ID.fetch_add(1, AO::Relaxed);
        D { id, val }
    }
}
impl Drop for D {
    fn drop(&mut self) {
        DROPS[self.id as usize].fetch_add(1, AO::Relaxed);
    }
}
pub fn drops_all_once() -> bool {
    let n = NEXT_ID.load(AO::Relaxed) as usize;
    let mut ok = true;
    let mut i = 0;
    while i < DROP_SLOTS {
        if i < n && DROPS[i].load(AO::Relaxed) != 1 {
            ok = false;
        }
        i += 1;
    }
    ok
}
