// ---- shared by all harnesses (both compilation modes)
use orx_parallel::prelude::*;
use orx_parallel::*;
use std::collections::VecDeque;
use std::num::NonZeroUsize;
use std::sync::atomic::{AtomicBool, AtomicU8, Ordering as AO};

macro_rules! probe_ref {
    ($x:expr) => {
        #[cfg(not(kani))]
        {
            model::probe_addr($x as *const u8 as usize);
        }
    };
}
macro_rules! probe_idx {
    ($x:expr) => {
        #[cfg(not(kani))]
        {
            model::probe(Some($x));
        }
    };
}
macro_rules! probe_val {
    () => {
        #[cfg(not(kani))]
        {
            model::probe(None);
        }
    };
}

// call counters: HS.calls[stage][tag] during the library run, HS.exp[stage][tag] during the oracle run.
// One tagged static for all harness-side state (see the note on `model::S`).
const Z8: AtomicU8 = AtomicU8::new(0);
const ZROW: [AtomicU8; 8] = [Z8; 8];
pub struct HarnessState {
    pub tag: std::sync::atomic::AtomicU64,
    pub calls: [[AtomicU8; 8]; 5],
    pub exp: [[AtomicU8; 8]; 5],
    pub oracle: AtomicBool,
    pub last_tag: [AtomicU8; 5],
    pub order_bad: AtomicBool,
    pub drops: [AtomicU8; DROP_SLOTS],
    pub next_id: AtomicU8,
}
pub const DROP_SLOTS: usize = 3 * @MAXN@ + 2;
pub static HS: HarnessState = HarnessState {
    tag: std::sync::atomic::AtomicU64::new(0x6861_726e_6573_7321),
    calls: [ZROW; 5],
    exp: [ZROW; 5],
    oracle: AtomicBool::new(false),
    last_tag: [Z8; 5],
    order_bad: AtomicBool::new(false),
    drops: [Z8; DROP_SLOTS],
    next_id: AtomicU8::new(0),
};
pub struct OracleFlag;
pub static ORACLE: OracleFlag = OracleFlag;
impl OracleFlag {
    pub fn store(&self, v: bool, o: AO) {
        HS.oracle.store(v, o)
    }
    pub fn load(&self, o: AO) -> bool {
        HS.oracle.load(o)
    }
}

/// record one call of the closure of `stage` on the element tagged `v & 7`
pub fn bump(stage: usize, v: u8) {
    let t = (v & 7) as usize;
    if ORACLE.load(AO::Relaxed) {
        HS.exp[stage][t].fetch_add(1, AO::Relaxed);
    } else {
        HS.calls[stage][t].fetch_add(1, AO::Relaxed);
        // source order of the arguments of each stage (meaningful in sequential mode only)
        if (t as u8) < HS.last_tag[stage].load(AO::Relaxed) {
            HS.order_bad.store(true, AO::Relaxed);
        }
        HS.last_tag[stage].store(t as u8, AO::Relaxed);
    }
}
pub fn order_ok() -> bool {
    !HS.order_bad.load(AO::Relaxed)
}
pub fn calls(stage: usize, t: usize) -> u8 {
    HS.calls[stage][t].load(AO::Relaxed)
}
pub fn exp(stage: usize, t: usize) -> u8 {
    HS.exp[stage][t].load(AO::Relaxed)
}
pub fn total_calls() -> usize {
    let mut s = 0usize;
    let mut i = 0;
    while i < 5 {
        let mut j = 0;
        while j < model::MAXN {
            s += HS.calls[i][j].load(AO::Relaxed) as usize;
            j += 1;
        }
        i += 1;
    }
    s
}
/// input whose low three bits are the position tag, the rest symbolic
pub fn tagged<const N: usize>(r: [u8; N]) -> [u8; N] {
    let mut a = [0u8; N];
    let mut i = 0;
    while i < N {
        a[i] = (r[i] & 0xF8) | (i as u8);
        i += 1;
    }
    a
}

// drop-observing item type
pub struct D {
    pub id: u8,
    pub val: u8,
    /// position of the source element this value descends from (concrete; decisions are taken on it)
    pub pos: u8,
}
impl D {
    /// a source element: its id is its position
    pub fn new(val: u8) -> D {
        let id = HS.next_id.fetch_add(1, AO::Relaxed);
        D { id, val, pos: id }
    }
    /// a value produced by a closure from an element at position `pos`
    pub fn with_pos(pos: u8, val: u8) -> D {
        let id = HS.next_id.fetch_add(1, AO::Relaxed);
        D { id, val, pos }
    }
}
impl Drop for D {
    fn drop(&mut self) {
        HS.drops[self.id as usize].fetch_add(1, AO::Relaxed);
    }
}
pub fn drops_all_once() -> bool {
    let n = HS.next_id.load(AO::Relaxed) as usize;
    let mut ok = true;
    let mut i = 0;
    while i < DROP_SLOTS {
        if i < n && HS.drops[i].load(AO::Relaxed) != 1 {
            ok = false;
        }
        i += 1;
    }
    ok
}

/// A by-value iterator source whose items are handed out under the schedule model: inside a modelled pull it yields
/// the positions that pull obtained (see model::sched_pos), otherwise (sequential mode, oracle, native replay) it is
/// the plain sequential iterator over `data`.  `exact` selects an exact size_hint (known length) or none (unknown).
#[derive(Clone)]
pub struct SchedIter<T: Copy, const N: usize> {
    pub data: [T; N],
    pub seq: usize,
    pub exact: bool,
}
impl<T: Copy, const N: usize> SchedIter<T, N> {
    pub fn new(data: [T; N], exact: bool) -> Self {
        SchedIter { data, seq: 0, exact }
    }
}
impl<T: Copy, const N: usize> Iterator for SchedIter<T, N> {
    type Item = T;
    fn next(&mut self) -> Option<T> {
        if let Some(p) = model::sched_pos() {
            return p.map(|i| self.data[i]);
        }
        if self.seq < N {
            let v = self.data[self.seq];
            self.seq += 1;
            Some(v)
        } else {
            None
        }
    }
    fn size_hint(&self) -> (usize, Option<usize>) {
        if self.exact {
            (N - self.seq, Some(N - self.seq))
        } else {
            (0, None)
        }
    }
}
